"""C35 — block download delivers every servable height (system/p2p/dht/protocol/download).
Family Download: mechanism model of the shared job list / per-height workers / re-download pass,
bound to the real download protocol on real libp2p hosts through the gates of hook H7b."""
import json
import os
import re

FAMILY = 'Download'
DRIVER = 'download'
HOOK_COMMITS = ['e241dee']          # verif hook: download gates, request-timeout and back-off hooks, VerifNewProtocol
FIX_COMMITS = ['2dda45c', 'ce4a1b0', '95f414a']
PROPS = {
    'C35': dict(
        text='TLC exhaustively checks the mechanism model of a download task (job list shared by the per-height workers, '
             'shared Index/TaskNum, peer behaviours ok/refuse/stall/malformed/wrong-height/lacks-height, retry bound, '
             're-download pass) for all behaviour assignments and interleavings of 2-3 peers x 2-3 heights: every servable '
             'height delivered at task end, no peer asked again for a height it failed within one downloadBlock pass, no '
             'stuck state, termination under weak fairness; the pre-fix mechanisms (Remove by shared Index, unchecked block '
             'height, no read deadline) are refuted by TLC in the same model. TLC-generated (behaviour assignment, schedule) '
             'pairs are replayed into the real download protocol on in-process libp2p hosts with scripted peers, the worker '
             'goroutines scheduled step by step through verif gates; the verdict is taken from the requests, the blocks '
             'received by a fake blockchain and task termination. Free-running recordings of the real task under random '
             'peer behaviours are validated by Download_Trace (internal steps silent) with every invariant evaluated at every step.',
        note='"Within the same task" is read as within one downloadBlock pass over one job list (checkTask rebuilds the full '
             'peer list for the re-download on purpose); re-asks across passes are counted and printed, not judged. A peer '
             '"serves" a height when the peer-info manager reports it at or above that height and it answers with that block. '
             'Out of scope: cancellation of the protocol context, duplicate pids, peer heights changing during a task, block '
             'contents beyond the height. Bounds: TLC 2-3 peers x 2-3 heights, retry bound 5 in exhaustive runs (50 in '
             'generated/recorded runs), recordings up to 4 peers x 5 (thorough: 6) heights. The per-peer concurrency limit (42-50 requests) is '
             'explored exhaustively only in the model (Limit=1 configuration); on the real code it is reached by three scripted '
             'runs (60/130/55 heights, peers holding their replies) that are judged on the property observables, not validated by TLC.',
    ),
}

DEMAND = dict(done=True, missing=[], reasked=[])


def _strip(bs):
    for b in bs:
        b['steps'] = [s for s in b['steps'] if s.get('op') not in ('Init', 'Setup')]
    return [b for b in bs if b['steps'] and b['steps'][0].get('op') == 'Start']


def _candidates(bs, tag):
    """Behaviours of a pre-fix mechanism model: only configuration and schedule are kept; the model's mechanism
    predictions are dropped and the property's demand is asked at the end."""
    out = []
    for b in bs:
        steps = []
        for s in b['steps']:
            if s.get('op') == 'TaskDone':
                continue
            s = {k: v for k, v in s.items() if k != 'exp'}
            steps.append(s)
        steps.append(dict(op='TaskDone', ret=DEMAND))
        out.append(dict(fam=b.get('fam'), cfg=b.get('cfg'), id=tag + b['id'], meta=dict(fidelity=False), steps=steps))
    return out


def _counterexample(res, tag):
    """The error trace TLC printed for a refuted pre-fix mechanism, as a candidate behaviour."""
    steps = []
    for line in res['out'].splitlines():
        m = vlib.ACT_RE.match(line.rstrip('\n'))
        if m:
            raw = m.group(1)
            try:
                steps.append(json.loads(json.loads('"' + raw + '"')))
            except Exception:
                steps.append(json.loads(vlib.tla_unescape(raw)))
    bs = _strip([dict(fam=FAMILY, cfg=res['cfg'], id='cex-' + tag, steps=steps)])
    return _candidates(bs, '')


def _replay(ctx, binary, bs, opts=None, par=8, timeout=3600, name=None):
    """ctx.replay, except that model-fidelity errors of the driver (the mechanism model mispredicts the code although the
    property's observables agree) do not abort the run at once: a disagreement on the property observed in the same run is
    the verdict (exit 1); fidelity errors alone make the run exit 2 at the end (see run())."""
    if not bs:
        raise vlib.Broken('no behaviours to replay (generator produced nothing)')
    name = name or 'behaviours-%d.ndjson' % len(os.listdir(ctx.scratch))
    p = ctx.write_behaviours(bs, name)
    outp = p + '.summary.json'
    optstr = ','.join('%s=%s' % kv for kv in (opts or {}).items())
    cmd = [binary, 'replay', '--in', p, '--out', outp, '--replays', vlib.REPLAYS, '--prop', ctx.prop, '--tier', ctx.tier,
           '--seed', str(ctx.seed), '--par', str(par), '--opt', optstr]
    rc, out = vlib.sh(cmd, cwd=ctx.scratch, timeout=timeout)
    if rc == 124:
        raise vlib.Broken('replay timeout (%ds)' % timeout)
    if not os.path.exists(outp):
        raise vlib.Broken('replay driver died rc=%d:\n%s' % (rc, out[-4000:]))
    s = json.load(open(outp))
    s['mismatches'] = s.get('mismatches') or []
    errs = s.get('errors') or []
    other = [e for e in errs if 'model fidelity:' not in e]
    if other:
        raise vlib.Broken('replay driver errors: %s' % other[:5])
    vlib.log('[replay] %s %s: %d behaviours, %d steps, %d compared, %d non-trivial, %d mismatching signatures, %d fidelity errors' %
             (os.path.basename(binary), optstr, s['behaviours'], s['steps'], s['compared'], s['nontrivial'], len(s['mismatches']), len(errs)))
    ctx.evaluations += s['behaviours']
    ctx.traces += s['behaviours']
    ctx.nontrivial += s['nontrivial']
    for x in s.get('samples') or []:
        if len(ctx.samples) < 4:
            ctx.samples.append(x)
    ctx.mismatches.extend(s['mismatches'])
    ctx.extra.setdefault('_fidelity_errors', []).extend(errs)
    return s


def _scenario(sid, np_, nh, hold, beh=None):
    beh = beh or [['ok'] * nh for _ in range(np_)]
    return dict(fam=FAMILY, cfg='scenario', id=sid, steps=[
        dict(op='Start', np=np_, nh=nh, ph=[nh] * np_, beh=beh, arr0=list(range(1, np_ + 1)), free=True, hold=hold, ret='-'),
        dict(op='TaskDone', ret=DEMAND)])


def _scenarios(ctx, b):
    scs = [_scenario('busy-1x60', 1, 60, 50), _scenario('busy-3x130', 3, 130, 126),
           _scenario('busy-2x55', 2, 55, 50, [['refuse'] * 55, ['ok'] * 55])]
    p = ctx.write_behaviours(scs, 'scenarios.ndjson')
    rc, out = vlib.sh([b, 'scenario', '--prop', ctx.prop, '--seed', str(ctx.seed), '--tier', ctx.tier, p], timeout=1800)
    line = [l for l in out.splitlines() if l.startswith('@@SCENARIO ')]
    if rc != 0 or not line:
        raise vlib.Broken('scenario run failed rc=%d:\n%s' % (rc, out[-3000:]))
    res = json.loads(line[-1][len('@@SCENARIO '):])
    vlib.log('[scenario] ' + '; '.join('%s: rechecked=%s max_inflight=%s ret=%s' % (r['id'], r.get('rechecked'), r.get('max_inflight'),
                                                                                   json.dumps(r['ret'])) for r in res))
    for sc, r in zip(scs, res):
        ctx.evaluations += 1
        ctx.traces += 1
        if r['ret'] != DEMAND:
            rp = os.path.join(vlib.REPLAYS, '%s-%s-%d-%s.json' % (ctx.prop, FAMILY, ctx.seed, sc['id']))
            json.dump(dict(property=ctx.prop, family=FAMILY, seed=ctx.seed, tier=ctx.tier, opts={}, behaviour=sc, failing_step=1,
                           field='ret', expected=DEMAND, observed=r['ret'], signature=r['signature']), open(rp, 'w'), indent=1)
            ctx.mismatches.append(dict(signature=r['signature'], replay=rp, expected=DEMAND, observed=r['ret'], field='ret'))
        elif not r.get('nontrivial'):
            raise vlib.Broken('scenario %s did not reach the concurrency limit (no height went through the re-download pass)' % sc['id'])
        else:
            ctx.nontrivial += 1
    ctx.extra['busy_scenarios'] = [dict(id=r['id'], rechecked=r.get('rechecked'), max_inflight=r.get('max_inflight')) for r in res]


def _fidelity_verdict(ctx):
    errs = ctx.extra.pop('_fidelity_errors', [])
    if errs and not ctx.mismatches:
        raise vlib.Broken('the mechanism model no longer describes the code (no disagreement on the property was observed): %s' % errs[:4])
    if errs:
        ctx.notes.append('model-fidelity errors next to the reported disagreement: %s' % errs[:3])


def run(ctx):
    q = ctx.tier == 'quick'
    ctx.rule = ('cases = (behaviour assignment, pid order, schedule) triples: TLC simulation of Download.tla draws a peer '
                'height and a behaviour in {ok,refuse,stall,malformed,wrong} per (peer,height), a pid order, and an interleaving '
                'of the per-height workers; each step releases one real goroutine from its gate; plus the schedules of the '
                'pre-fix mechanism models and TLC\'s own counterexamples as candidates; plus free-running recordings. '
                'non-trivial = at least one peer fails a height that another peer serves; distinct by abstract step sequence')
    ctx.assumptions += ['peer-info heights are accurate and constant during a task', 'pids distinct',
                        'protocol context not cancelled during a task', 'sort.Sort is stable for <= 12 peers (insertion sort)',
                        'TLC bounds: 2-3 peers, 2-3 heights, retry bound 5 (exhaustive) / 50 (generated, recorded)']
    T = 3600
    # 1. the mechanism as it is in the code now: properties hold for all assignments and interleavings
    ctx.tlc_mc('Download_MC', 'Download_MCq.cfg', workers=4, timeout=T)
    ctx.tlc_mc('Download_MC', 'Download_MCq3.cfg', workers=4, timeout=T)
    ctx.tlc_mc('Download_MC', 'Download_MCbusy.cfg', workers=4, timeout=T)
    ctx.tlc_mc('Download_MC', 'Download_Live.cfg', workers=2, timeout=T)
    if not q:
        r = ctx.tlc_mc('Download_MC', 'Download_MCt.cfg', workers=6, timeout=4 * T, coverage=True)
        # -coverage 1 prints a snapshot every minute: only the last figure of each action counts
        last = {}
        for m in re.finditer(r'^<(\w+) line [^>]*>: (\d+):(\d+)\s*$', r['out'], re.M):
            last[m.group(1)] = (int(m.group(2)), int(m.group(3)))
        never = sorted(a for a, (d, g) in last.items() if g == 0)
        if never or not last:
            raise vlib.Broken('actions never taken in Download_MCt: %s' % (never or 'no coverage output'))
        ctx.extra['action_coverage_MCt'] = {a: g for a, (d, g) in last.items()}
    # 2. the pre-fix mechanisms are refuted in the same model (the model can see the defects); the
    #    counterexamples are candidates that are replayed on the real code below
    cands = []
    olds = [('Download_OldRemove.cfg', 'NoReask')]
    if not q:
        olds += [('Download_OldHeight.cfg', 'AllServed'), ('Download_OldDeadline.cfg', 'NoStuck')]
    for cfg, inv in olds:
        r = ctx.tlc_mc('Download_MC', cfg, workers=2, timeout=T, expect_violation=True, count=False)
        if r['violation'] != inv:
            raise vlib.Broken('%s: expected TLC to refute %s in the pre-fix mechanism, got %s' % (cfg, inv, r['violation']))
        cands += _counterexample(r, cfg.split('.')[0].replace('Download_', ''))
    ctx.extra['prefix_mechanisms_refuted_by_tlc'] = [c for c, _ in olds]
    if not q:
        # informational: the stronger reading of "within the same task" (never again under the same task id) does not hold
        # by design: checkTask rebuilds the full peer list for the re-download pass
        r = ctx.tlc_mc('Download_MC', 'Download_Strong.cfg', workers=2, timeout=T, expect_violation=True, count=False)
        ctx.notes.append('informational: NoReaskTask (stronger reading, not a verdict) is %s in the model of the current code'
                         % ('refuted by the re-download pass' if r['violation'] == 'NoReaskTask' else 'not refuted'))

    b = vlib.build(DRIVER)
    # 3. binding A: generated (assignment, schedule) pairs under gates
    n = 250 if q else 1500
    bs = _strip(ctx.tlc_sim('Download_MC', 'Download_Gen.cfg', num=n, depth=500, keep_init=True, timeout=T))
    incomplete = [x['id'] for x in bs if x['steps'][-1].get('op') != 'TaskDone']
    if incomplete:
        raise vlib.Broken('generated behaviours did not reach TaskDone: %s' % incomplete[:3])
    _replay(ctx, b, bs, opts=dict(stuck_ms=60000), par=8, timeout=T)
    old = _strip(ctx.tlc_sim('Download_MC', 'Download_GenOld.cfg', num=n // 2, depth=500, keep_init=True, timeout=T,
                             seed=ctx.seed + 7))
    cands += _candidates(old, 'old-')
    _replay(ctx, b, cands, opts=dict(stuck_ms=60000), par=8, timeout=T)
    if not q:
        for sd in range(1, 4):
            bs2 = _strip(ctx.tlc_sim('Download_MC', 'Download_Gen.cfg', num=n, depth=500, keep_init=True, timeout=T,
                                     seed=ctx.seed * 100 + sd))
            _replay(ctx, b, bs2, opts=dict(stuck_ms=60000, salt=sd), par=8, timeout=T)
        # replayer self-test: a behaviour whose demand is flipped must fail
        bad = [dict(bs[0], id='selftest', steps=bs[0]['steps'][:-1] + [dict(bs[0]['steps'][-1], ret=dict(DEMAND, done=False))])]
        p = ctx.write_behaviours(bad, 'selftest.ndjson')
        rc, out = vlib.sh([b, 'replay', '--in', p, '--out', p + '.sum', '--replays', ctx.scratch, '--prop', ctx.prop,
                           '--seed', str(ctx.seed)], timeout=600)
        s = json.load(open(p + '.sum')) if os.path.exists(p + '.sum') else {}
        if not s.get('mismatches'):
            raise vlib.Broken('replayer self-test: a flipped demand was not reported')
        ctx.extra['selftest_flipped_demand_rejected'] = True
    # 4. the per-peer concurrency limit on the real code: peers hold their good replies until the limit is
    #    reached and the remaining heights have run out of retries; those must come back through the re-download pass
    _scenarios(ctx, b)
    # 5. binding B: free-running recordings validated by the trace specification
    r, s = ctx.validate_recording(b, 'Download_Trace', 'Download_Trace.cfg', dfs=True, timeout=4 * T,
                                  opts=dict(n=30 if q else 300, peers=4, heights=5, stuck_ms=60000))
    ctx.extra['recorded'] = s.get('counters')
    if not q:
        # (trace validation explores every interleaving of the silent steps: ~1e2-1e4 states per recorded task)
        r6, s6 = ctx.validate_recording(b, 'Download_Trace', 'Download_Trace.cfg', dfs=True, timeout=4 * T,
                                        opts=dict(n=100, peers=4, heights=6, stuck_ms=60000, salt=6))
        ctx.extra['recorded_6_heights'] = s6.get('counters')
    ctx.notes.append('informational (stronger reading of "within the same task"): %d requests went to a peer that had already '
                     'failed that height earlier in the same task (re-download pass), out of %d requests in %d recorded tasks'
                     % ((s.get('counters') or {}).get('reask_same_task_informational', 0), (s.get('counters') or {}).get('asks', 0),
                        s.get('behaviours', 0)))
    if r["accepted"]:
        # binding self-test: one recorded reply flipped / one event dropped must be rejected
        tp = [os.path.join(ctx.scratch, f) for f in os.listdir(ctx.scratch) if f.startswith('trace-') and f.endswith('.ndjson')][-1]

        def flip(ev):
            if ev.get('ev') == 'Reply':
                ev['ok'] = not ev['ok']
                return True
            return False
        ctx.trace_selftest('Download_Trace', 'Download_Trace.cfg', tp, dfs=True, mutate=flip)
    _fidelity_verdict(ctx)


import vlib  # noqa: E402
