"""C21/C22/C23 — transaction pool (system/mempool). Family Mempool, reference model + concurrent trace leg."""
import os
import threading

FAMILY = 'Mempool'
DRIVER = 'mempool'
HOOK_COMMITS = ['1d9f55d', '8e8da1f', '0f2a9b9']   # H3 types.VerifSetTimeShift; H5 mempool verifEvent/VerifSnapshot/VerifSweep; H5b process-wide observer
FIX_COMMITS = ['498e49c', '305d55f']   # Transaction.IsExpire on group members (C22); delBlock re-admitting on-chain transactions (C21)

PROPS = {
    'C21': dict(
        text='TLC exhaustively checks the pool reference model (no duplicate hash, capacity, per-sender limit, derived '
             'indexes, latest-list window, block transactions gone after AddBlock) on small constants; TLC-generated event '
             'histories (submissions, blocks, rollbacks, removals, sweeps, clock ticks; tiny capacities, a group, expiry by '
             'height / block time / pool age) are replayed into the real pool and after every event size, per-sender counts '
             'and lists, latest list, short/full-hash lookup, byte counter and fee total are compared with the model; '
             'concurrent runs are recorded through a hook under the pool mutex and validated by the trace specification; '
             'reorganisations of a loaded full node (rollback notice overtaken by the replacing block on the bus) are provoked '
             'and the same inverted order is a model action replayed deterministically.',
        note='Pool = production factory mempool.New (timeline queue). Rig 1: the pool on a real message bus with scripted '
             'blockchain/execs/rpc/p2p responders (every event order possible, used for the bulk of the behaviours); rig 2: full '
             'util/testnode + factory node, real block execution, rollbacks through real reorganisations (a lone rollback and an '
             'empty block are impossible there; the Reorg action is enabled only where the bus race between the two notices cannot '
             'change the outcome). Clock driven by a verif time-shift hook (tick 1000 s). '
             'Short-hash collisions (5-byte prefix) are outside the generated inputs.',
    ),
    'C22': dict(
        text='The admission clauses of the pool are a decision table in the model (Viol): TLC enumerates, for every entry '
             'shape (single, group head, group member, eth-signed) and pool/chain state of a bounded prefix, each clause '
             'violated in turn plus the all-good row; every row is submitted to the real pool and accept/reject and the '
             'unchanged pool on reject are compared. Groups are also built in a hostile representation (head ground until the '
             '32-byte group header parses as an encoded transaction list).',
        note='Only accept/reject is compared, not which error. Para-chain real-recipient blacklisting is not reachable on a '
             'main-chain configuration and is not covered; signature soundness itself is trusted (three ways of breaking a '
             'signature are sampled).',
    ),
    'C23': dict(
        text='TLC checks that every producer list of the model satisfies the statement (length, no duplicates, no excluded, '
             'no expired by height/time/age, arrival order of non-eth entries, consecutive nonces per eth sender from the '
             'current nonce); generated pools are queried on the real pool with generated counts and exclusion lists and '
             'each reply is judged by exactly those predicates.',
        note='The relative order between eth senders and between eth and non-eth entries is not compared. The current nonce '
             'is served by a scripted rpc responder from the model chain (the evm executor is not part of this repository).',
    ),
}

BASE = dict(Cap=3, PerSender=2, MaxLast=2, MaxH=3, MaxNow=2, MaxBlk=2, LevelFee='FALSE', TierAt=2,
            Defects='NoDefects', MaxRm=2, QueryOn='FALSE', NodeRig='FALSE', SubW=1, MaxOps=0, EmitOn='TRUE', Ent=9, Tab='TabU9')


def cfg_text(view=None, invariants=(), properties=(), spec='Spec', **kw):
    c = dict(BASE)
    c.update(kw)
    lines = ['SPECIFICATION ' + spec, 'CONSTANTS',
             '  Ent = {%s}' % ', '.join(str(i) for i in range(1, c['Ent'] + 1)),
             '  Tab <- %s' % c['Tab'], '  Senders <- SendersABX', '  Defects <- %s' % c['Defects']]
    for k in ('Cap', 'PerSender', 'MaxLast', 'MaxH', 'MaxNow', 'MaxBlk', 'LevelFee', 'TierAt', 'MaxRm', 'QueryOn', 'NodeRig', 'SubW',
              'MaxOps', 'EmitOn'):
        lines.append('  %s = %s' % (k, c[k]))
    if view:
        lines.append('VIEW ' + view)
    if invariants:
        lines.append('INVARIANTS ' + ' '.join(invariants))
    if properties:
        lines.append('PROPERTIES ' + ' '.join(properties))
    lines.append('CHECK_DEADLOCK FALSE')
    return '\n'.join(lines) + '\n'


def preplay(ctx, binary, bs, opts, shards=6, count=True, label='r'):
    """The clock shift is process-wide, so a replay process runs one behaviour at a time; parallelism is by processes."""
    if not bs:
        raise vlib.Broken('no behaviours to replay')
    shards = max(1, min(shards, len(bs)))
    parts = [bs[i::shards] for i in range(shards)]
    errs = []
    lock = threading.Lock()
    base = len(os.listdir(ctx.scratch))

    def run(i):
        try:
            sub = vlib.Ctx.__new__(vlib.Ctx)
            sub.__dict__.update(ctx.__dict__)
            sub.evaluations = sub.traces = sub.nontrivial = 0
            sub.samples, sub.mismatches = [], []
            for attempt in range(3):
                try:
                    sub.replay(binary, parts[i], opts=opts, par=1, count=True, timeout=3600,
                               name='%s-%d-%d-%d.ndjson' % (label, base, i, attempt))
                    break
                except vlib.Broken as ex:
                    # an overloaded machine can make the pool's 2 s nonce query time out: re-run the shard
                    if 'SLOW:' not in str(ex) or attempt == 2:
                        raise
                    sub.evaluations = sub.traces = sub.nontrivial = 0
                    sub.samples, sub.mismatches = [], []
            with lock:
                if count:
                    ctx.evaluations += sub.evaluations
                    ctx.traces += sub.traces
                    ctx.nontrivial += sub.nontrivial
                    for x in sub.samples:
                        if len(ctx.samples) < 4:
                            ctx.samples.append(x)
                ctx.mismatches.extend(sub.mismatches)
        except Exception as ex:  # noqa
            with lock:
                errs.append(ex)

    ts = [threading.Thread(target=run, args=(i,)) for i in range(shards)]
    for t in ts:
        t.start()
    for t in ts:
        t.join()
    if errs:
        raise errs[0] if isinstance(errs[0], vlib.Broken) else vlib.Broken(str(errs[0]))
    if ctx.mismatches:
        raise Found()


class Found(Exception):
    """A disagreement was observed on the real code: the verdict is settled, the remaining legs are skipped."""


C21_INV = ('TypeOK', 'NoDup', 'CapOK', 'PerSenderOK', 'IndexAgree', 'LatestOK')

# universes of Mempool_MC.tla: name -> number of entries
U = dict(TabU5=5, TabU6=6, TabU9=9)


def all_cfg(mode, **kw):
    kw.setdefault('Ent', U[kw.get('Tab', 'TabU5')])
    txt = cfg_text(spec='ASpec', **kw)
    txt = txt.replace('CHECK_DEADLOCK FALSE', '  Mode = "%s"\nINVARIANT Export\nCHECK_DEADLOCK FALSE' % mode)
    # constants must stay inside the CONSTANTS section
    lines = txt.splitlines()
    mode_line = [l for l in lines if l.startswith('  Mode')][0]
    lines.remove(mode_line)
    lines.insert(lines.index('CONSTANTS') + 1, mode_line)
    return '\n'.join(lines) + '\n'


def mc(ctx, st, q, invariants, properties, defects):
    """Exhaustive check of the reference model on the small universe (quick) / the 6-entry universe (thorough)."""
    # measured: quick 10 237 distinct / 284 689 generated states (TwoDefects)
    if vlib.REPO != '/repo':
        # mutation run (VERIF_REPO=<worktree>): the model does not depend on the code, the smallest universe is enough
        kw = dict(Tab='TabU5', Ent=5, Cap=2, PerSender=1, MaxLast=1, MaxH=2, MaxNow=1, MaxBlk=1, LevelFee='TRUE', TierAt=1)
        defects = 'TwoDefects' if defects == 'AllDefects' else defects
    elif q:
        kw = dict(Tab='TabU6', Ent=6, Cap=3, PerSender=2, MaxLast=2, MaxH=2, MaxNow=1, MaxBlk=1, LevelFee='TRUE', TierAt=2)
        if defects == 'AllDefects':
            defects = 'TwoDefects'
    else:
        # measured: 55 817 distinct / 1 404 811 generated states without defective submissions; every defect kind adds one
        # self-loop per entry and position to each state, so the exhaustive run keeps two kinds (all six are enumerated
        # against bounded prefixes by the GEN-all table instead)
        kw = dict(Tab='TabU6', Ent=6, Cap=3, PerSender=2, MaxLast=2, MaxH=2, MaxNow=2, MaxBlk=2, LevelFee='TRUE', TierAt=2)
        if defects == 'AllDefects':
            # C22: the action property RejectKeeps re-evaluates every submission on every transition (more than 4 CPU-hours
            # on the configuration above, 2 CPU-hours with all six defect kinds on the quick universe under -coverage);
            # the exhaustive run keeps two defect kinds on the quick universe, the GEN-all tables enumerate all six
            kw.update(MaxNow=1, MaxBlk=1)
            defects = 'TwoDefects'
    ctx.write_cfg(st, 'mc.cfg', cfg_text(view='view', invariants=invariants, properties=properties, Defects=defects,
                                         MaxRm=1, EmitOn='FALSE', **kw))
    # -coverage multiplies the cost of the action property RejectKeeps (hours): the C22 run goes without it; the same
    # actions are coverage-checked by the C21 / C23 thorough runs
    r = ctx.tlc_mc('Mempool_MC', 'mc.cfg', workers=4, timeout=18000, stage=st, coverage=(not q) and 'RejectKeeps' not in properties)
    # TLC reports the disjuncts of Next by source position. Switched off on purpose in exhaustive runs: Reorg (node-rig
    # generation only), GetTxList (no state change; C23OK quantifies over all requests), defective submissions when the
    # property under check has none.
    import re
    src = open(os.path.join(st, 'Mempool.tla')).read().splitlines()
    zeros = []
    for z in (r.get('zero_actions') or []):
        m = re.search(r'\((\d+) \d+ \d+ \d+\)', z)
        text = src[int(m.group(1)) - 1] if m and int(m.group(1)) <= len(src) else z
        if ': Reorg(b)' in text or 'GetTxList(' in text or ('DefectsOf' in text and defects == 'NoDefects'):
            continue
        zeros.append(text.strip())
    if not q and zeros:
        raise vlib.Broken('vacuous model-checking run, actions never taken: %s' % sorted(set(zeros)))
    return r


def concurrent_leg(ctx, b, q):
    """C21 'schedules': recorded concurrent runs validated by Mempool_Trace (invariants at every linearised step)."""
    import json
    # every TLC call waits for a machine-wide slot: the quick tier keeps their number small
    confs = [(3, 2, 2)] if q else [(4, 2, 3), (2, 1, 1)]
    last_ok = None
    for i, (cap, per, last) in enumerate(confs):
        opts = dict(n=4 if q else 6, workers=6, ops=30 if q else 60, phases=3, cap=cap, persender=per, maxlast=last)
        tp, s = ctx.record(b, 'concurrent', opts=opts, timeout=3600, name='conc-%d.ndjson' % i)
        r = ctx.tlc_trace('Mempool_Trace', 'Mempool_Trace.cfg', tp, timeout=3600)
        ctx.states += r['states']
        if r['accepted']:
            ctx.traces += s.get('behaviours', 1)
            ctx.evaluations += s.get('behaviours', 1)
            ctx.nontrivial += s.get('nontrivial', 0)
            for x in (s.get('samples') or [])[:1]:
                if len(ctx.samples) < 6:
                    ctx.samples.append(x)
            last_ok = tp
        else:
            lines = [l for l in open(tp) if l.strip()]
            m = r['matched'] if r['matched'] is not None else 0
            failing = json.loads(lines[m]) if m < len(lines) else None
            what = r['violation'] or 'no-matching-step'
            sig = 'trace|concurrent|event=%s|%s' % ((failing or {}).get('ev', 'end'), what)
            keep = os.path.join(vlib.REPLAYS, '%s-%s-trace-%d-concurrent-%d.json' % (ctx.prop, ctx.fam, ctx.seed, i))
            json.dump(dict(property=ctx.prop, family=ctx.fam, seed=ctx.seed, tier=ctx.tier, opts=opts,
                           extra=dict(kind='trace', recorder='concurrent', module='Mempool_Trace', cfg='Mempool_Trace.cfg', matched=m,
                                      failing_event=failing, invariant=r['violation'], conf=json.loads(lines[0]),
                                      prefix=[json.loads(l) for l in lines[max(1, m - 40):m + 1]]),
                           signature=sig), open(keep, 'w'), indent=1)
            ctx.mismatches.append(dict(signature=sig, replay=keep, expected='trace accepted by Mempool_Trace',
                                       observed='rejected at event %d: %s' % (m, json.dumps(failing)[:300]), field='trace'))
    if last_ok and not ctx.mismatches:
        # binding self-test: drop one transaction from one recorded snapshot; TLC must reject the trace
        def mutate(ev):
            if ev.get('ev') == 'Push' and ev.get('ret') == 'ok' and ev.get('pool'):
                ev['pool'] = ev['pool'][:-1]
                return True
            return False
        ctx.trace_selftest('Mempool_Trace', 'Mempool_Trace.cfg', last_ok, mutate=mutate)


def node_leg(ctx, b, st, q, label, want=('Reorg',), **kw):
    """Behaviours a full node can be made to perform (Reorg instead of a lone DelBlock, no empty block) replayed on a
    util/testnode: blocks are executed by a factory node and delivered through BlockChain.ProcAddBlockMsg. Node starts are
    expensive, so more behaviours are generated than replayed and those containing the wanted steps are preferred."""
    name = 'gen_node_%s.cfg' % label
    c = dict(Cap=3, PerSender=2, MaxLast=2, NodeRig='TRUE', SubW=1, MaxRm=1, MaxH=3, MaxNow=1)
    c.update(kw)
    ctx.write_cfg(st, name, cfg_text(**c))
    keep = 24 if q else 80
    bs = ctx.tlc_sim('Mempool_MC', name, num=keep * 4, depth=12 if q else 16, stage=st, keep_init=True,
                     seed=ctx.seed * 10 + 7, timeout=3600)

    def wanted(x):
        return any(s.get('op') in want for s in x['steps'])
    first = [x for x in bs if wanted(x)]
    rest = [x for x in bs if not wanted(x)]
    sel = (first[:(keep * 3) // 4] + rest)[:keep]
    ctx.extra['node_rig'] = dict(generated=len(bs), replayed=len(sel), with_reorganisation=sum(1 for x in sel if wanted(x)))
    preplay(ctx, b, sel, dict(rig='node'), shards=4, label='node-' + label)


def race_leg(ctx, b, q):
    """C21 'schedules' on a full node: while requesters keep the pool's high-priority bus channel busy, the tip (holding
    transaction T) is replaced by a heavier sibling that also holds T. The rollback notice travels on the low-priority
    channel, so the pool may handle the sibling's EventAddBlock first; T must not be in the pool afterwards."""
    import json
    for k in range(1 if q else 2):
        seed = ctx.seed * 10 + k
        rc, out = vlib.sh([b, 'race', '--seed', str(seed), '--prop', ctx.prop, '--tier', ctx.tier, '--opt', 'attempts=12,flooders=16'],
                          cwd=ctx.scratch, timeout=3600)
        m = [l for l in out.splitlines() if l.startswith('RACE ')]
        if rc != 0 or not m:
            raise vlib.Broken('race recorder failed rc=%d:\n%s' % (rc, out[-3000:]))
        o = json.loads(m[-1][5:])
        inv = sum(1 for x in o['orders'] if 'rmblock' not in x)
        vlib.log('[race] seed %d: %d reorganisations under load, %d handled in inverted order, %d left an on-chain transaction in the pool'
                 % (seed, o['attempts'], inv, o['inverted']))
        ctx.evaluations += o['attempts']
        ctx.traces += o['attempts']
        ctx.nontrivial += inv
        r = ctx.extra.setdefault('reorg_under_load', dict(reorganisations=0, handled_inverted=0, violations=0))
        r['reorganisations'] += o['attempts']
        r['handled_inverted'] += inv
        r['violations'] += o['inverted']
        if o['inverted']:
            sig = 'node|reorg-under-load|transaction-of-added-block-back-in-pool'
            keep = os.path.join(vlib.REPLAYS, '%s-%s-race-%d.json' % (ctx.prop, ctx.fam, seed))
            json.dump(dict(property=ctx.prop, family=ctx.fam, seed=ctx.seed, tier=ctx.tier, opts={},
                           extra=dict(kind='trace', recorder='race', outcome=o), signature=sig), open(keep, 'w'), indent=1)
            ctx.mismatches.append(dict(signature=sig, replay=keep, field='schedule',
                                       expected='after EventAddBlock(b) none of b\'s transactions is in the pool',
                                       observed='transaction T of the replacing block is in the pool (pool mutation orders per attempt: %s)' % o['orders']))
            raise Found()


def run(ctx):
    q = ctx.tier == 'quick'
    b = vlib.build(DRIVER)
    st = ctx.stage()
    ctx.assumptions += ['hash function and signatures trusted', 'one clock tick = 1000 s (> pool-age limit 600 s + 60 s margin)',
                        'no 5-byte short-hash collisions among generated transactions',
                        'blockchain / execs / rpc answers of the bare rig follow the model chain (executor check always passes)']
    try:
        {'C21': run_c21, 'C22': run_c22, 'C23': run_c23}[ctx.prop](ctx, q, b, st)
    except Found:
        ctx.notes.append('stopped at the first leg that disagreed; later legs were not run')


def run_c21(ctx, q, b, st):
    ctx.rule = ('behaviours = TLC simulation of Mempool.tla (Submit/AddBlock/DelBlock/ReorgInv/Remove/Sweep/Tick) under several '
                '(Cap, PerSender, MaxLast) configurations plus every history of 4 steps on the 5-entry universe, full projection '
                'compared after every step; non-trivial = contains a failed push (duplicate / per-sender limit / full), a removal '
                'of an absent hash, an expiry removal, or a DelBlock/Reorg re-admission; recorded concurrent traces count when a '
                'push failed, reorganisations under load when the pool handled the two notices in inverted order; distinct by '
                'abstract action sequence')
    mc(ctx, st, q, C21_INV, ('BlockGone',), 'NoDefects')
    n = 200 if q else 700
    confs = [(3, 2, 2), (2, 1, 1)] if q else [(3, 2, 2), (2, 1, 1), (2, 2, 3), (4, 2, 2)]
    for i, (cap, per, last) in enumerate(confs):
        name = 'gen_c21_%d.cfg' % i
        ctx.write_cfg(st, name, cfg_text(Cap=cap, PerSender=per, MaxLast=last))
        bs = ctx.tlc_sim('Mempool_MC', name, num=n, depth=18 if q else 24, stage=st, keep_init=True, seed=ctx.seed * 10 + i, timeout=3600)
        preplay(ctx, b, bs, dict(rig='bare'), label='c21-%d' % i)
    # every bounded history on the small universe
    ctx.write_cfg(st, 'all_c21.cfg', all_cfg('hist', Tab='TabU5', Cap=2, PerSender=1, MaxLast=1, MaxH=2, MaxNow=1, MaxBlk=1,
                                             MaxRm=1, MaxOps=3))
    allb = ctx.tlc_genall('Mempool_All', 'all_c21.cfg', stage=st, timeout=7200)
    preplay(ctx, b, allb, dict(rig='bare'), label='c21-all')
    ctx.extra['exhaustive_small_config'] = dict(cfg='all_c21.cfg (Mode=hist)', behaviours=len(allb))
    node_leg(ctx, b, st, q, 'c21')
    concurrent_leg(ctx, b, q)
    race_leg(ctx, b, q)


def run_c22(ctx, q, b, st):
    ctx.rule = ('rows = for every pool/chain state reached by a bounded prefix (Submit / one-entry AddBlock / Tick) on the 5- and '
                '6-entry universes, every entry x every static defect x member position plus the defect-free submission '
                '(GEN-all, Mode=admit), and TLC simulations with defective submissions interleaved with blocks, rollbacks and '
                'ticks; accept/reject and the projection (pool unchanged on reject) compared; non-trivial = a submission with '
                'exactly one violated clause; distinct by abstract action sequence')
    mc(ctx, st, q, C21_INV, ('RejectKeeps',), 'AllDefects')
    tables = [dict(Tab='TabU5', Cap=2, PerSender=1, MaxLast=1, LevelFee='TRUE', TierAt=1, MaxOps=2 if q else 3),
              dict(Tab='TabU6', Cap=3, PerSender=2, MaxLast=2, LevelFee='FALSE', TierAt=2, MaxOps=2 if q else 3)]
    total = 0
    for i, t in enumerate(tables):
        name = 'all_c22_%d.cfg' % i
        ctx.write_cfg(st, name, all_cfg('admit', Defects='AllDefects', MaxH=2, MaxNow=1, MaxBlk=1, MaxRm=1, **t))
        allb = ctx.tlc_genall('Mempool_All', name, stage=st, timeout=7200)
        total += len(allb)
        preplay(ctx, b, allb, dict(rig='bare'), label='c22-all-%d' % i)
    ctx.extra['exhaustive_small_config'] = dict(cfg='all_c22_*.cfg (Mode=admit)', behaviours=total)
    n = 200 if q else 700
    for i, (cap, per, lvl, tier) in enumerate([(3, 2, 'TRUE', 2)] if q else
                                              [(3, 2, 'TRUE', 2), (2, 1, 'FALSE', 2), (3, 1, 'TRUE', 1)]):
        name = 'gen_c22_%d.cfg' % i
        ctx.write_cfg(st, name, cfg_text(Cap=cap, PerSender=per, LevelFee=lvl, TierAt=tier, Defects='AllDefects', MaxRm=1, SubW=4))
        bs = ctx.tlc_sim('Mempool_MC', name, num=n, depth=16 if q else 22, stage=st, keep_init=True, seed=ctx.seed * 10 + i, timeout=3600)
        preplay(ctx, b, bs, dict(rig='bare'), label='c22-%d' % i)
    node_leg(ctx, b, st, q, 'c22', want=('Reorg', 'AddBlock'), Defects='AllDefects', LevelFee='TRUE', TierAt=2)


def run_c23(ctx, q, b, st):
    ctx.rule = ('behaviours = TLC simulation with producer-list requests (count 1..Cap+1, exclusion lists over pool members and '
                'absent hashes) interleaved with submissions, blocks, rollbacks, removals and clock ticks on the 9-entry universe '
                '(4 eth-signed entries with a nonce gap and a duplicate nonce, expiry by height, block time and age), plus every '
                'request against every state of a bounded prefix (GEN-all, Mode=list); each real reply judged by the predicates '
                'of the statement; non-trivial = a request with an expired or excluded pool member, or an eth sender with >= 2 '
                'pool entries; distinct by abstract action sequence')
    mc(ctx, st, q, C21_INV + ('C23OK',), (), 'NoDefects')
    ctx.write_cfg(st, 'all_c23.cfg', all_cfg('list', Tab='TabU6', Cap=3, PerSender=3, MaxLast=2, MaxH=2, MaxNow=1, MaxBlk=1,
                                             MaxRm=1, MaxOps=3))
    allb = ctx.tlc_genall('Mempool_All', 'all_c23.cfg', stage=st, timeout=7200)
    preplay(ctx, b, allb, dict(rig='bare'), label='c23-all')
    ctx.extra['exhaustive_small_config'] = dict(cfg='all_c23.cfg (Mode=list)', behaviours=len(allb))
    n = 250 if q else 700
    for i, (cap, per) in enumerate([(4, 3)] if q else [(4, 3), (3, 2), (2, 2)]):
        name = 'gen_c23_%d.cfg' % i
        ctx.write_cfg(st, name, cfg_text(Cap=cap, PerSender=per, QueryOn='TRUE', SubW=5, MaxRm=1, MaxH=3, MaxNow=2))
        bs = ctx.tlc_sim('Mempool_MC', name, num=n, depth=24 if q else 30, stage=st, keep_init=True, seed=ctx.seed * 10 + i, timeout=3600)
        preplay(ctx, b, bs, dict(rig='bare'), label='c23-%d' % i)
    node_leg(ctx, b, st, q, 'c23', want=('Reorg', 'GetTxList'), QueryOn='TRUE', Cap=4, PerSender=3)


import vlib  # noqa: E402
