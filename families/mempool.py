"""C21/C22/C23 — transaction pool (system/mempool). Family Mempool, reference model + concurrent trace leg."""
import os
import threading

FAMILY = 'Mempool'
DRIVER = 'mempool'
HOOK_COMMITS = ['1d9f55d', '8e8da1f']   # H3 types.VerifSetTimeShift, H5 mempool verifEvent/VerifSnapshot/VerifSweep

PROPS = {
    'C21': dict(
        text='TLC exhaustively checks the pool reference model (no duplicate hash, capacity, per-sender limit, derived '
             'indexes, latest-list window, block transactions gone after AddBlock) on small constants; TLC-generated event '
             'histories (submissions, blocks, rollbacks, removals, sweeps, clock ticks; tiny capacities, a group, expiry by '
             'height / block time / pool age) are replayed into the real pool and after every event size, per-sender counts '
             'and lists, latest list, short/full-hash lookup, byte counter and fee total are compared with the model; '
             'concurrent runs are recorded through a hook under the pool mutex and validated by the trace specification.',
        note='Pool = production factory mempool.New (timeline queue). Primary rig: the pool on a real message bus with scripted '
             'blockchain/execs/rpc/p2p responders (every event order possible); second rig: full util/testnode with real '
             'block execution and a real reorganisation for rollbacks. Clock driven by a verif time-shift hook (tick 1000 s). '
             'Short-hash collisions (5-byte prefix) are outside the generated inputs.',
    ),
    'C22': dict(
        text='The admission clauses of the pool are a decision table in the model (Viol): TLC enumerates, for every entry '
             'shape (single, group head, group member, eth-signed) and pool/chain state of a bounded prefix, each clause '
             'violated in turn plus the all-good row; every row is submitted to the real pool and accept/reject and the '
             'unchanged pool on reject are compared.',
        note='Only accept/reject is compared, not which error. Para-chain real-recipient blacklisting is not reachable on a '
             'main-chain configuration and is not covered; signature soundness itself is trusted (three ways of breaking a '
             'signature are sampled).',
    ),
    'C23': dict(
        text='TLC checks that every producer list of the model satisfies the statement (length, no duplicates, no excluded, '
             'no expired by height/time/age, arrival order of non-eth entries, consecutive nonces per eth sender from the '
             'current nonce); generated pools are queried on the real pool with generated counts and exclusion lists and '
             'each reply is judged by exactly those predicates.',
        note='The relative order between eth senders and between eth and non-eth entries is not compared. The current nonce '
             'is served by a scripted rpc responder from the model chain (the evm executor is not part of this repository).',
    ),
}

BASE = dict(Cap=3, PerSender=2, MaxLast=2, MaxH=3, MaxNow=2, MaxBlk=2, LevelFee='FALSE', TierAt=2,
            Defects='NoDefects', MaxRm=2, QueryOn='FALSE', SubW=1, MaxOps=0, EmitOn='TRUE', Ent=9, Tab='TabU9')


def cfg_text(view=None, invariants=(), properties=(), spec='Spec', **kw):
    c = dict(BASE)
    c.update(kw)
    lines = ['SPECIFICATION ' + spec, 'CONSTANTS',
             '  Ent = {%s}' % ', '.join(str(i) for i in range(1, c['Ent'] + 1)),
             '  Tab <- %s' % c['Tab'], '  Senders <- SendersABX', '  Defects <- %s' % c['Defects']]
    for k in ('Cap', 'PerSender', 'MaxLast', 'MaxH', 'MaxNow', 'MaxBlk', 'LevelFee', 'TierAt', 'MaxRm', 'QueryOn', 'SubW',
              'MaxOps', 'EmitOn'):
        lines.append('  %s = %s' % (k, c[k]))
    if view:
        lines.append('VIEW ' + view)
    if invariants:
        lines.append('INVARIANTS ' + ' '.join(invariants))
    if properties:
        lines.append('PROPERTIES ' + ' '.join(properties))
    lines.append('CHECK_DEADLOCK FALSE')
    return '\n'.join(lines) + '\n'


def preplay(ctx, binary, bs, opts, shards=6, count=True, label='r'):
    """The clock shift is process-wide, so a replay process runs one behaviour at a time; parallelism is by processes."""
    if not bs:
        raise vlib.Broken('no behaviours to replay')
    shards = max(1, min(shards, len(bs)))
    parts = [bs[i::shards] for i in range(shards)]
    errs = []
    lock = threading.Lock()
    base = len(os.listdir(ctx.scratch))

    def run(i):
        try:
            sub = vlib.Ctx.__new__(vlib.Ctx)
            sub.__dict__.update(ctx.__dict__)
            sub.evaluations = sub.traces = sub.nontrivial = 0
            sub.samples, sub.mismatches = [], []
            sub.replay(binary, parts[i], opts=opts, par=1, count=True, timeout=3600, name='%s-%d-%d.ndjson' % (label, base, i))
            with lock:
                if count:
                    ctx.evaluations += sub.evaluations
                    ctx.traces += sub.traces
                    ctx.nontrivial += sub.nontrivial
                    for x in sub.samples:
                        if len(ctx.samples) < 4:
                            ctx.samples.append(x)
                ctx.mismatches.extend(sub.mismatches)
        except Exception as ex:  # noqa
            with lock:
                errs.append(ex)

    ts = [threading.Thread(target=run, args=(i,)) for i in range(shards)]
    for t in ts:
        t.start()
    for t in ts:
        t.join()
    if errs:
        raise errs[0] if isinstance(errs[0], vlib.Broken) else vlib.Broken(str(errs[0]))


C21_INV = ('TypeOK', 'NoDup', 'CapOK', 'PerSenderOK', 'IndexAgree', 'LatestOK')


def run(ctx):
    q = ctx.tier == 'quick'
    b = vlib.build(DRIVER)
    st = ctx.stage()
    if ctx.prop == 'C21':
        run_c21(ctx, q, b, st)
    else:
        raise vlib.Broken('not built yet: ' + ctx.prop)


def run_c21(ctx, q, b, st):
    ctx.rule = ('behaviours = TLC simulation of Mempool.tla (Submit/AddBlock/DelBlock/Remove/Sweep/Tick) under several '
                '(Cap, PerSender, MaxLast) configurations, full projection compared after every step; non-trivial = contains a '
                'failed push (duplicate / per-sender limit / full), a removal of an absent hash, an expiry removal, or a '
                'DelBlock re-admission; distinct by abstract action sequence')
    ctx.assumptions += ['hash function and signatures trusted', 'one clock tick = 1000 s (> pool-age limit 600 s + 60 s margin)',
                        'no 5-byte short-hash collisions among generated transactions']
    ctx.write_cfg(st, 'q_mc.cfg', open(os.path.join(vlib.SPEC, 'Mempool', 'Mempool_MCq.cfg')).read())
    ctx.tlc_mc('Mempool_MC', 'Mempool_MCq.cfg', workers=4, timeout=3600, stage=st)
    n = 150 if q else 1500
    for i, (cap, per, last) in enumerate([(3, 2, 2), (2, 1, 1), (2, 2, 3)] if q else [(3, 2, 2), (2, 1, 1), (2, 2, 3), (3, 1, 2), (4, 2, 2)]):
        name = 'gen_c21_%d.cfg' % i
        ctx.write_cfg(st, name, cfg_text(Cap=cap, PerSender=per, MaxLast=last))
        bs = ctx.tlc_sim('Mempool_MC', name, num=n, depth=18, stage=st, keep_init=True, seed=ctx.seed * 10 + i, timeout=3600)
        preplay(ctx, b, bs, dict(rig='bare'), label='c21-%d' % i)


import vlib  # noqa: E402
