"""C30 — produced blocks respect size, count and group limits
(system/consensus/base.go AddTxsToBlock / CheckTxExpire). Family Pack, reference model / decision table."""
FAMILY = 'Pack'
DRIVER = 'pack'
PROPS = {
    'C30': dict(
        text='TLC exhaustively checks the packing reference model Pack.tla (fold over the offered pool output with count and '
             'size accumulators; items = single transactions and groups of 2-4, size classes small / half-bound / bound-eps / '
             'bound+eps, blacklisted members, pre-filled blocks, heights around the count-limit change and the blacklist fork, in '
             'both orders of the two activation heights): count <= per-height limit, size <= bound, groups whole, order kept, '
             'blacklisted items skipped without using budget, greedy up to the first overflow; expiry removal drops whole groups '
             'and keeps the rest. Every row TLC enumerates (GEN-all) plus simulated longer rows are replayed into the real '
             'BaseClient.AddTxsToBlock / CheckTxExpire with real signed transactions of exact byte sizes (block padded so that '
             'exactly cap*unit+slack bytes remain below the packer\'s bound, slack 0 and unit-1 hitting both off-by-one edges), '
             'comparing the selection with the model and evaluating the clauses on the real block; recorded random rows '
             '(arbitrary sizes, 10-24 items) are validated by the trace specification Pack_Trace.',
        note='After the first item that does not fit the property leaves the continuation open (stop, as base.go does, or skip '
             'and continue): both selections are admitted. Size bound checked on the real block is types.MaxBlockSize; the '
             'packer\'s own bound (MaxBlockSize-100000) is what the size classes are placed around. Mempool-level admission '
             '(signature, fee, tx size <= MaxTxSize) is not part of this property. TLC bounds: lists <= 5 (exhaustive) / <= 7 '
             '(simulated), maxTxNumber 3/4.',
    ),
}
HOOK_COMMITS = []


def run(ctx):
    q = ctx.tier == 'quick'
    ctx.rule = ('rows = (height, pre-filled count, offered list of single txs / groups with size class, blacklisted and expired '
                'flags) enumerated exhaustively by TLC within budgets (GEN-all) and by TLC simulation for lists up to 7; each row '
                'is concretised with real signed transactions of exact total size; non-trivial = the list reaches the count or '
                'size bound (some clean item is left out), or contains a group (Pack) / a group with an expired member (Expire); '
                'distinct by abstract row')
    ctx.assumptions += ['cap units map to bytes exactly: item of s units = s*unit bytes, block padded to leave cap*unit+slack bytes',
                        'crypto/protobuf trusted', 'TLC bounds: MaxLen 4-5 exhaustive, 7 simulated; limits 3/4; CapC=40 units']
    # 1. the model satisfies the property (exhaustive)
    T = 3600
    if q:
        ctx.tlc_mc('Pack_MC', 'Pack_MCq.cfg', workers=4, timeout=T)
        ctx.tlc_mc('Pack_MC', 'Pack_MCeq.cfg', workers=4, timeout=T)
    else:
        # coverage: every action enabled by the configuration's Ops must have fired (the pack configs switch
        # Expire off and the expire config switches Pack off, by construction)
        r = ctx.tlc_mc('Pack_MC', 'Pack_MC.cfg', workers=4, timeout=4 * T, coverage=True)
        z = [a for a in (r.get('zero_actions') or []) if '<Expire ' not in a]
        if z:
            raise vlib.Broken('vacuous coverage: %s' % z)
        ctx.tlc_mc('Pack_MC', 'Pack_MCb.cfg', workers=4, timeout=4 * T)
        r = ctx.tlc_mc('Pack_MC', 'Pack_MCe.cfg', workers=4, timeout=4 * T, coverage=True)
        z = [a for a in (r.get('zero_actions') or []) if '<Pack ' not in a]
        if z:
            raise vlib.Broken('vacuous coverage: %s' % z)
    b = vlib.build(DRIVER)
    # 2. every enumerated row against the real code
    if q:
        rows = ctx.tlc_genall('Pack_All', 'Pack_Allq.cfg', timeout=T)
        rows_b = ctx.tlc_genall('Pack_All', 'Pack_AllBq.cfg', timeout=T)
        rows_e = ctx.tlc_genall('Pack_All', 'Pack_AllEq.cfg', timeout=T)
    else:
        rows = ctx.tlc_genall('Pack_All', 'Pack_All.cfg', timeout=4 * T)
        rows2 = ctx.tlc_genall('Pack_All', 'Pack_All2.cfg', timeout=4 * T)   # two big items (half+half, half+near, ...)
        for x in rows2:
            x['id'] = 'c' + x['id'][1:]
        rows = rows + rows2
        rows_b = ctx.tlc_genall('Pack_All', 'Pack_AllB.cfg', timeout=4 * T)
        rows_e = ctx.tlc_genall('Pack_All', 'Pack_AllE.cfg', timeout=4 * T)
    for i, x in enumerate(rows_b):
        x['id'] = 'b' + x['id'][1:]
    for i, x in enumerate(rows_e):
        x['id'] = 'e' + x['id'][1:]
    ctx.extra['exhaustive_rows'] = dict(pack_limit_then_fork=len(rows), pack_fork_then_limit=len(rows_b), expire=len(rows_e))
    ctx.replay(b, rows, opts=dict(slack='0'), par=4, timeout=T)
    ctx.replay(b, rows, opts=dict(slack='max', salt=1), par=4, timeout=T, count=False)
    ctx.replay(b, rows_b, opts=dict(salt=2), par=4, timeout=T)
    ctx.replay(b, rows_e, opts=dict(), par=4, timeout=T)
    if not q:
        for salt in (3, 4):
            ctx.replay(b, rows_e, opts=dict(salt=salt), par=4, timeout=T, count=False)
    ctx.exhaustive = False  # exhaustive over the abstract rows of the bounded configs, sampled concretisation
    # 3. longer rows by simulation (full alphabet, lists up to 7), both fork orders
    n = 600 if q else 6000
    for cfg, sd in (('Pack_Gen.cfg', 0), ('Pack_GenB.cfg', 1)):
        bs = ctx.tlc_sim('Pack_MC', cfg, num=n, depth=9, seed=ctx.seed * 10 + sd, timeout=T)
        bs = [x for x in bs if x['steps'] and x['steps'][-1].get('op') in ('Pack', 'Expire')]
        ctx.replay(b, bs, opts=dict(salt=10 + sd), par=4, timeout=T)
    # 4. real block-sized transactions (no padding: one unit is ~0.5 MB) on a sample
    big = rows[::max(1, len(rows) // (30 if q else 300))]
    ctx.replay(b, big, opts=dict(unit='big', salt=20), par=2, timeout=T, count=False)
    # 5. code -> spec: recorded random rows validated by the trace specification
    ctx.validate_recording(b, 'Pack_Trace', 'Pack_Trace.cfg', recorder='rows', opts=dict(n=60 if q else 600),
                           selftest=False, timeout=T)
    # binding self-test: a recorded block with its last transaction removed (a split group, or a fitting item
    # left out) and one with a blacklisted/extra item must be rejected by the trace specification
    tp, _ = ctx.record(b, 'rows', opts=dict(n=8))

    def drop_last(ev):
        if ev.get('ev') == 'Pack' and len(ev.get('blk') or []) >= 2:
            ev['blk'] = ev['blk'][:-1]
            return True
        return False
    ctx.trace_selftest('Pack_Trace', 'Pack_Trace.cfg', tp, mutate=drop_last)


import vlib  # noqa: E402
