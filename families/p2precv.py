"""C33 / C34 — receive side of the dht broadcast protocol. Family P2PRecv (mechanism model)."""
FAMILY = 'P2PRecv'
DRIVER = 'p2precv'
HOOK_COMMITS = []
PROPS = {
    'C33': dict(text='wip', note='wip'),
    'C34': dict(text='wip', note='wip'),
}


def run(ctx):
    q = ctx.tier == 'quick'
    ctx.tlc_mc('P2PRecv_MC', 'P2PRecv_MCq.cfg', workers=2, timeout=1800)
    b = vlib.build(DRIVER)
    bs = ctx.tlc_sim('P2PRecv_MC', 'P2PRecv_Gen.cfg', num=60, depth=11)
    ctx.replay(b, bs, opts=dict(fuzz=3), par=4)


import vlib  # noqa: E402
