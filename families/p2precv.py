"""C33 / C34 — receive side of the dht broadcast protocol (system/p2p/dht/protocol/broadcast) and the
other peer-facing receive paths. Family P2PRecv: mechanism model of the light-block pending machine."""
import json
import os

FAMILY = 'P2PRecv'
DRIVER = 'p2precv'
KIND = 'TLA+ mechanism spec + TLC (exhaustive, GEN-all, simulation) + Go conformance driver running the real protocol in child processes'
HOOK_COMMITS = ['b06d35f', '353d975', '97ba3f9']
FIX_COMMITS = ['269496e', '2a12197', '8a4ad7d', 'dd96578']

_TECH = ('TLA+ mechanism specification of the light-block pending machine checked by TLC (invariants and action '
         'properties); every bounded behaviour exported by TLC is replayed into the real broadcast protocol running '
         'in a child process whose survival is the observable; recorded runs of the protocol with its own tickers '
         'are validated against the trace specification')

PROPS = {
    'C33': dict(
        text='TLC checks on the mechanism model of addLtBlock/buildPendBlock/pendBlockLoop that no light-block '
             'announcement (transaction count -1..4 and 2^40 against hash lists of length 0..4, missing miner tx, '
             'every layout of singles and groups) and no later pool contents (absent / tx / group per short hash, '
             'changing over time) can panic outside a recover; every behaviour TLC enumerates in the small '
             'configuration is replayed into the real protocol (real pendBlockLoop, blockRequestLoop and '
             'manageDeniedPeer goroutines driven tick by tick through hook H7) inside a child process: the process '
             'must survive every step and at the end still rebuild a fresh light block and request a timed-out one. '
             'TLC-scheduled RecvMalformed(class) steps feed structurally and byte-level malformed full blocks, '
             'transactions, batches, block requests/responses, peer messages and raw light blocks through the '
             'production validator/decoder/dispatcher, malformed download replies, peer-info and version '
             'announcements and requests over real libp2p streams, and mutated state proofs. Three node '
             'configurations are replayed (default, disableValidation, two p2p types).',
        note='Structure is enumerated, bytes are sampled: "any content" is covered by seeded mutation of valid '
             'encodings (protobuf and snappy layer, stream framing), not exhaustively (DESIGN §6). Bounds: <=2 light '
             'blocks, <=4 txs per block in exhaustive runs (<=6 in simulation), <=3 hash ids. The pubsub message '
             'enters at the topic validator (hook handle ReceiveRaw reproduces the decode-and-dispatch lines of '
             'handleSubMsg); gossipsub itself, connection management and the dht routing code are not exercised. '
             'Replies of the local mempool/blockchain modules are well-formed (not peer input). Memory exhaustion is '
             'covered only for the announced transaction count. queryVersionOld/queryPeerInfoOld have no caller and '
             'are not exercised.',
        technique=_TECH,
    ),
    'C34': dict(
        text='TLC checks on the mechanism model that a posted block has no holes and, whenever every pool answer '
             'consumed was the true transaction, equals the original; that a pending block is neither requested nor '
             'dropped before its timeout, is removed (built or requested from its sender) by the first loop iteration '
             'after the timeout, and is posted by the first iteration at which all its transactions are present. '
             'Every behaviour of the small configuration (all layouts of singles/groups up to 4 txs, every subset of '
             'the block\'s transactions initially in the pool, arrivals/evictions before and after the timeout) is '
             'replayed into the real protocol with real transactions, groups built by types.CreateTxGroup and the '
             'real mempool short-hash cache behind the mempool stand-in; the block delivered to the blockchain topic '
             'is compared byte for byte (transactions, positions, header hash, merkle root) with the original and the '
             'full-block request must go to the sender\'s peer topic.',
        note='Timeouts are driven by ageing the pending entry through the hook (Expire), not by wall-clock waiting in '
             'replays; the recorded runs use the real 200 ms ticker and a 300 ms timeout. If the last transaction '
             'arrives after the timeout but before the iteration that notices it either outcome (posted / requested) '
             'is accepted. Blocks at or below the local height (no request is sent) are not modelled. The mempool is '
             'the real SHashTxCache behind a scripted responder, not a full Mempool module. Layouts up to 6 txs are '
             'sampled by simulation, up to 4 enumerated.',
        technique=_TECH,
    ),
}

def _coverage_guard(ctx, res, cfg):
    """-coverage 1 on the plain Next: every action / disjunct of Next must have been taken, except the two
    disjuncts the configuration switches off (SetPool with InitPools="empty", RecvMalformed with no classes)."""
    import re
    src = open(os.path.join(vlib.SPEC, 'P2PRecv', 'P2PRecv.tla')).read().splitlines()
    seen = 0
    bad = []
    for line in res['out'].splitlines():
        m = re.match(r'^<(\w+) line (\d+), col \d+ to line \d+, col \d+ of module P2PRecv(?: \((\d+) \d+ \d+ \d+\))?>: (\d+):(\d+)', line)
        if not m:
            continue
        seen += 1
        if int(m.group(5)) > 0:
            continue
        srcline = src[int(m.group(3) or m.group(2)) - 1]
        if 'SetPool' in srcline or 'RecvMalformed' in srcline:
            continue
        bad.append(line.strip())
    if seen < 5:
        raise vlib.Broken('coverage output of %s not understood' % cfg)
    if bad:
        raise vlib.Broken('vacuous model-checking run %s: actions never taken: %s' % (cfg, bad))
    ctx.extra['coverage_all_actions_taken'] = cfg


def _selftest(ctx, b, bs, opts):
    """Anti-vacuity of the binding: a behaviour whose predicted status is corrupted must be reported."""
    import copy
    pick = None
    for x in bs:
        for i, s in enumerate(x['steps']):
            st = (s.get('chk') or {}).get('st') or []
            if 'posted' in st:
                pick = (x, i, st.index('posted'))
                break
        if pick:
            break
    if not pick:
        ctx.notes.append('selftest: no behaviour with a posted block')
        return
    x, i, j = pick
    y = copy.deepcopy(x)
    y['id'] = x['id'] + '-selftest'
    y['steps'][i]['chk']['st'][j] = 'pend'
    before = len(ctx.mismatches)
    ctx.replay(b, [y], opts=opts, par=1, count=False, name='selftest-%s.ndjson' % ctx.prop)
    new = ctx.mismatches[before:]
    del ctx.mismatches[before:]
    for m in new:
        try:
            os.remove(m.get('replay'))
        except Exception:
            pass
    if not new:
        raise vlib.Broken('binding self-test failed: a corrupted status prediction was not reported')
    ctx.extra['selftest_corrupted_prediction_reported'] = True


def _tick_builders(bs, limit):
    """behaviours in which a loop iteration (not the receipt) completes a block: the shapes in which a defect of the
    posting path shows outside the receive goroutine's recover"""
    out = []
    for x in bs:
        prev = []
        for s in x['steps']:
            st = (s.get('chk') or {}).get('st') or []
            if s.get('op') in ('Tick', 'Probe') and any(v in ('posted', 'posted|req') and (i >= len(prev) or prev[i] != v)
                                                        for i, v in enumerate(st)):
                out.append(x)
                break
            prev = st
        if len(out) >= limit:
            break
    return out


def _live(ctx, b, n):
    """Binding B: runs of the real protocol on its own tickers, validated by P2PRecv_Trace (silent loop iterations)."""
    opts = dict(n=n, par=4)
    r, s = ctx.validate_recording(b, 'P2PRecv_Trace', 'P2PRecv_Trace.cfg', recorder='live', opts=opts, dfs=True,
                                  selftest=False, timeout=7200)
    if not r['accepted']:
        return
    # anti-vacuity: the same kind of recording with every rebuilt block reported as damaged and every final
    # "posted" turned into "req" must be rejected
    tp, _ = ctx.record(b, 'live', opts=dict(n=4, par=4), name='live-selftest.ndjson')
    lines = [json.loads(x) for x in open(tp) if x.strip()]
    changed = 0
    for e in lines:
        if e.get('ev') == 'Posted' and e.get('ok'):
            e['ok'] = False
            changed += 1
        if e.get('ev') == 'Final':
            e['st'] = ['req' if x == 'posted' else x for x in e['st']]
    if not changed:
        ctx.notes.append('live selftest: nothing rebuilt in the self-test recording')
        return
    bad = tp + '.bad'
    with open(bad, 'w') as f:
        for e in lines:
            f.write(json.dumps(e) + '\n')
    r2 = ctx.tlc_trace('P2PRecv_Trace', 'P2PRecv_Trace.cfg', bad, dfs=True, timeout=7200)
    if r2['accepted']:
        raise vlib.Broken('binding self-test failed: a recording with damaged rebuilt blocks was accepted by P2PRecv_Trace')
    ctx.extra['selftest_corrupted_trace_rejected'] = True


def run(ctx):
    q = ctx.tier == 'quick'
    c33 = ctx.prop == 'C33'
    ctx.assumptions += [
        'bytes are sampled (seeded mutation of valid encodings), structure is enumerated',
        'replies of the local mempool / blockchain modules are well-formed',
        'TLC bounds: <=2 light blocks, <=4 txs per block exhaustive (<=6 simulated), <=3..4 short-hash ids',
        'pending timeout driven through hook H7 (Expire) in replays',
    ]
    b = vlib.build(DRIVER)

    # 1. the properties on the mechanism model
    ctx.tlc_mc('P2PRecv_MC', 'P2PRecv_MCq.cfg', workers=2 if q else 4, timeout=3600)
    if not q:
        ctx.tlc_mc('P2PRecv_MC', 'P2PRecv_MC.cfg', workers=4, timeout=7200)
        r = ctx.tlc_mc('P2PRecv_MC', 'P2PRecv_MCcov.cfg', workers=2, timeout=3600, coverage=True, count=False)
        _coverage_guard(ctx, r, 'P2PRecv_MCcov.cfg')
    # anti-vacuity: the mechanism without the repaired bounds check must violate Alive
    # (the shared logger would print the word reserved for verdicts about the code: reworded for this expected outcome)
    _log = vlib.log
    vlib.log = lambda *a: _log(*[str(x).replace('VIOLATION', 'expected model counterexample:') for x in a])
    try:
        bad = ctx.tlc_mc('P2PRecv_MC', 'P2PRecv_MCbad.cfg', workers=2, timeout=3600, expect_violation=True, count=False)
    finally:
        vlib.log = _log
    ctx.mc_runs = [m for m in ctx.mc_runs if m.get('cfg') != 'P2PRecv_MCbad.cfg']  # a self-test, not a run of the checked model
    if bad['violation'] != 'Alive':
        raise vlib.Broken('model self-test failed: without the group bounds check the model should violate Alive, got %r' % bad['violation'])
    ctx.extra['model_selftest_unguarded_mechanism_violates'] = dict(invariant='Alive', cfg='P2PRecv_MCbad.cfg', distinct=bad['distinct'])

    if c33:
        ctx.rule = ('behaviours = (a) every complete behaviour of P2PRecv_All33 (one light block of every layout x '
                    'announced count x hash-list length x miner/no miner, pool answers absent/tx/g2/g3 changing over '
                    'time, ticks, timeouts), (b) TLC simulation with two blocks and RecvMalformed(class) steps over 13 '
                    'classes; each ends with the Probe step; observable = child process alive + probe outcome + status '
                    'of genuine blocks; non-trivial = a structurally inconsistent announcement, a malformed input on '
                    'another path, or a pool update after a light block; distinct by abstract action sequence')
        allb = ctx.tlc_genall('P2PRecv_All', 'P2PRecv_All33.cfg' if q else 'P2PRecv_All33t.cfg', timeout=7200, count=False)
        ctx.replay(b, allb, opts=dict(fuzz=2), par=8, timeout=7200)
        ctx.extra['exhaustive_small_config'] = dict(cfg='P2PRecv_All33.cfg' if q else 'P2PRecv_All33t.cfg', behaviours=len(allb))
        tb = _tick_builders(allb, 200 if q else 2000)
        if len(tb) < 5:
            raise vlib.Broken('no exported behaviour completes a block in a loop iteration')
        ctx.replay(b, tb, opts=dict(noval=1), par=8, timeout=7200, count=False)
        ctx.replay(b, tb, opts=dict(dual=1), par=8, timeout=7200, count=False)
        n = 150 if q else 600
        for k, opts in enumerate([dict(fuzz=2), dict(fuzz=2, noval=1), dict(fuzz=2, dual=1)]):
            bs = ctx.tlc_sim('P2PRecv_MC', 'P2PRecv_Gen.cfg', num=n if k == 0 else n // 2, depth=12, seed=ctx.seed * 10 + k)
            ctx.replay(b, bs, opts=opts, par=8, timeout=7200)
        if not q:
            for sd in range(3, 6):
                bs = ctx.tlc_sim('P2PRecv_MC', 'P2PRecv_Gen.cfg', num=400, depth=12, seed=ctx.seed * 10 + sd)
                ctx.replay(b, bs, opts=dict(fuzz=6, salt=sd), par=8, timeout=7200)
            import random
            rnd = random.Random(ctx.seed)
            sample = rnd.sample(allb, min(2000, len(allb)))
            ctx.replay(b, sample, opts=dict(noval=1), par=8, timeout=7200, count=False)
            ctx.replay(b, sample, opts=dict(dual=1), par=8, timeout=7200, count=False)
        _selftest(ctx, b, allb, dict(fuzz=2))
        _live(ctx, b, 8 if q else 60)
    else:
        ctx.rule = ('behaviours = every complete behaviour of P2PRecv_All34: a genuine light block of every layout of '
                    'singles and groups (group at every position), every subset of its transactions initially in the '
                    'pool, then arrivals / evictions of the true transactions, timeouts and loop iterations in every '
                    'order, closed by the Probe step; plus TLC simulation with two blocks and layouts up to 6 txs; '
                    'non-trivial = a block containing a group received with some transactions missing while others are '
                    'present or arrive later; distinct by abstract action sequence')
        allb = ctx.tlc_genall('P2PRecv_All', 'P2PRecv_All34.cfg' if q else 'P2PRecv_All34t.cfg', timeout=7200, count=False)
        ctx.replay(b, allb, opts={}, par=8, timeout=7200)
        ctx.extra['exhaustive_small_config'] = dict(cfg='P2PRecv_All34.cfg' if q else 'P2PRecv_All34t.cfg', behaviours=len(allb))
        n = 200 if q else 1500
        for sd in range(0, 1 if q else 3):
            bs = ctx.tlc_sim('P2PRecv_MC', 'P2PRecv_Gen34.cfg', num=n, depth=13, seed=ctx.seed * 10 + sd)
            ctx.replay(b, bs, opts=dict(salt=sd), par=8, timeout=7200)
        if not q:
            import random
            rnd = random.Random(ctx.seed)
            sample = rnd.sample(allb, min(4000, len(allb)))
            ctx.replay(b, sample, opts=dict(noval=1), par=8, timeout=7200, count=False)
        _selftest(ctx, b, allb, {})
        _live(ctx, b, 12 if q else 120)
    ctx.exhaustive = False  # exhaustive over the abstract behaviours of the small configuration; bytes are sampled


import vlib  # noqa: E402
