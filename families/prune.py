"""C05 - state pruning never deletes live state (system/store/mavl with enableMavlPrune).
Family Prune: reference model spec/Prune/Prune.tla + mechanism model spec/Prune/PruneMech.tla,
driver harness/drv/prune (real mavl store on LevelDB)."""
import concurrent.futures
import json
import os
import re
import time

FAMILY = 'Prune'
DRIVER = 'prune'
HOOK_COMMITS = ['7541e9f']   # verif hook: mavl db VerifResetGlobals/VerifWaitPrune (H4)
FIX_COMMITS = ['8f272d6',   # fix: mavl pruning deleted the root record shared with a retained state
               '161afb0',   # fix: mavl re-commit cleanup missed the version-index entry of a one-leaf tree
               'c0b4a0e',   # fix: kept-root window below an abandoned branch
               '6a501fe']   # fix: re-commit cleanup removes the entry of every leaf stored at that height

PROPS = {
    'C05': dict(
        text='A TLA+ reference model of the pruned state store (current chain with reorganisations, heights without state '
             'change, re-commits, retained interval) and a mechanism model of the implementation\'s leaf-version index, '
             'root-hash records, re-commit cleanup and first/second/third-level pruning scans are model-checked with TLC: on '
             'the mechanism model PruneSafe (every key of every retained state reads its value) holds exhaustively for '
             'linear histories of the repaired code, with reorganisations every violation is shown to belong to one known class, '
             'and TLC produces the counterexamples for the code as found and for that class. TLC-generated commit/reorg/prune/reopen histories (heights in the first-, second- and '
             'third-level bands), plus the exhaustive directed family of flip-flop reorganisations at one height, are replayed into the real mavl store module on LevelDB, reading every key at every retained '
             'root after every step and comparing the mechanism model\'s predicted database shape; seeded random recordings '
             'on 12-key trees are validated against the trace specification.',
        note='TLC bounds: 2-3 keys x 2 values, 5-10 steps, prune interval 1-3; trees of the mechanism model need no AVL '
             'rotation (<=3 keys) - rotations are covered by the recorded 12-key histories only. Parents of a reorganisation '
             'are retained states (reorg depth < prune interval); prune runs use cur <= tip. The store\'s background run is '
             'awaited after each commit (hook), so only sequential interleavings of pruning and commits are covered. LevelDB; '
             'memdb only for linear histories that never write a one-leaf tree (memdb reports deleting an absent key and MustWrite panics). Known finding: '
             'index entries of an abandoned branch at heights that are never committed again (new branch has blocks without '
             'state change there) make pruning delete a live version.',
    ),
}

KNOWN_STALE = 'retained-read|got=missing|stale-branch-entry-above-live-version=y'


def _cfg(base, **kv):
    """derive a cfg text from a base cfg by replacing constant values"""
    t = base
    for k, v in kv.items():
        t, n = re.subn(r'(?m)^(\s*%s\s*(?:=|<-)\s*).*$' % re.escape(k), lambda m: '  %s %s %s' % (k, '<-' if str(v).startswith('MC') or str(v).startswith('Tr') else '=', v), t)
        if n != 1:
            raise vlib.Broken('cfg constant %s not found' % k)
    return t


def preplay(ctx, binary, bs, opts, procs=4, count=True, label='', verdict=True, timeout=3000, tolerate=None):
    """Replay with one behaviour at a time per process (the mavl db package has process globals) in
    `procs` processes; merges the summaries like ctx.replay. verdict=False: mismatches are returned,
    not reported (mechanism-model fidelity pass)."""
    if not bs:
        raise vlib.Broken('no behaviours to replay (generator produced nothing)')
    procs = max(1, min(procs, len(bs)))
    chunks = [bs[i::procs] for i in range(procs)]
    optstr = ','.join('%s=%s' % kv for kv in (opts or {}).items())
    base = 'pb-%s-%d' % (label or 'x', len(os.listdir(ctx.scratch)))

    def one(i):
        p = ctx.write_behaviours(chunks[i], '%s-%d.ndjson' % (base, i))
        outp = p + '.summary.json'
        cmd = [binary, 'replay', '--in', p, '--out', outp, '--replays', vlib.REPLAYS, '--prop', ctx.prop, '--tier', ctx.tier,
               '--seed', str(ctx.seed), '--par', '1', '--opt', optstr]
        rc, out = vlib.sh(cmd, cwd=ctx.scratch, timeout=timeout)
        if rc == 124:
            raise vlib.Broken('replay timeout (%ds)' % timeout)
        if not os.path.exists(outp):
            if tolerate and tolerate in out:
                return dict(died=out[-300:])
            raise vlib.Broken('replay driver died rc=%d:\n%s' % (rc, out[-4000:]))
        s = json.load(open(outp))
        if s.get('errors'):
            raise vlib.Broken('replay driver errors: %s' % s['errors'][:5])
        return s

    t0 = time.time()
    with concurrent.futures.ThreadPoolExecutor(max_workers=procs) as ex:
        sums = list(ex.map(one, range(procs)))
    tot = dict(behaviours=0, steps=0, compared=0, nontrivial=0, mismatches=[], samples=[], died=[s['died'] for s in sums if 'died' in s])
    for s in sums:
        for k in ('behaviours', 'steps', 'compared', 'nontrivial'):
            tot[k] += s.get(k, 0)
        tot['mismatches'] += s.get('mismatches') or []
        tot['samples'] += s.get('samples') or []
    vlib.log('[replay] vh-prune %s %s: %d behaviours, %d steps, %d compared, %d non-trivial, %d mismatches, %.1fs' %
             (label, optstr, tot['behaviours'], tot['steps'], tot['compared'], tot['nontrivial'], len(tot['mismatches']), time.time() - t0))
    if count:
        ctx.evaluations += tot['behaviours']
        ctx.traces += tot['behaviours']
        ctx.nontrivial += tot['nontrivial']
        for x in tot['samples']:
            if len(ctx.samples) < 4:
                ctx.samples.append(x)
    if verdict:
        ctx.mismatches += tot['mismatches']
    return tot


def mech_view(bs):
    """behaviours whose compared projection is the mechanism model's prediction"""
    out = []
    for b in bs:
        st = []
        for s in b['steps']:
            if 'mchk' not in s:
                break
            s2 = {k: v for k, v in s.items() if k != 'mchk'}
            s2['chk'] = s['mchk']
            st.append(s2)
        if st:
            out.append(dict(b, steps=st))
    return out


def counterexample(res, ident):
    """the behaviour TLC printed for a violated invariant (act labels of the error trace)"""
    steps = []
    for line in res['out'].splitlines():
        m = vlib.ACT_RE.match(line.rstrip('\n'))
        if m:
            raw = m.group(1)
            try:
                st = json.loads(json.loads('"' + raw + '"'))
            except Exception:
                st = json.loads(vlib.tla_unescape(raw))
            if st.get('op') != 'Init':
                steps.append(st)
    if not steps:
        raise vlib.Broken('TLC reported %s but no action labels were found in its error trace' % res['violation'])
    return dict(fam=FAMILY, cfg=res['cfg'], id=ident, steps=steps)


def run(ctx):
    q = ctx.tier == 'quick'
    ctx.rule = ('behaviours = TLC simulation of Prune.tla / PruneMech.tla (Commit on any retained parent at one of the next '
                'admissible heights incl. used ones, NoChange, Prune(cur<=tip), Reopen; heights from the bands 1.., 500001.., '
                '1000001.., 1500003.., 2000001..) plus TLC counterexamples of the mechanism model, replayed on the real mavl '
                'store (LevelDB, prune+prefix) with every key read at every retained root after every step; non-trivial = a '
                'prune run (explicit or started by Tree.Save) deleted >=1 database record while >=2 roots were retained '
                '(counted by key-set difference of the database); distinct by abstract action sequence')
    ctx.assumptions += ['SHA-256 / LevelDB trusted', 'reorganisation parents are retained states; prune runs at cur <= tip',
                        'background pruning awaited before the next call (sequential interleavings only)',
                        'TLC bounds: NK<=3 (no AVL rotation in the mechanism model), NV=2, <=10 steps; rotations only in recorded 12-key histories',
                        'memdb backend only with linear histories whose first commit writes >= 2 keys (memdb reports deleting an absent key, so a pruning batch deleting one un-prefixed leaf twice and the cleanup batch of a re-commit panic in dbm.MustWrite)']
    stage = ctx.stage()
    rd = lambda f: open(os.path.join(stage, f)).read()
    b = vlib.build(DRIVER)

    rc, out = vlib.sh([b, 'memdb-probe', '--prop', ctx.prop, '--seed', str(ctx.seed)], timeout=600)
    m = re.search(r'\{"result":"(.*)"\}', out)
    ctx.extra['memdb_probe'] = m.group(1) if m else 'probe died rc=%d: %s' % (rc, out[-300:])

    # ---- 1. reference model: sanity invariants + the property as action property
    ctx.tlc_mc('Prune_MC', 'Prune_MC.cfg', workers=4, timeout=3600, stage=stage)
    if not q:
        ctx.write_cfg(stage, 'Prune_MCt.cfg', _cfg(rd('Prune_MC.cfg'), NK=3, MaxSteps=5, PruneH=3, MaxJump=2))
        ctx.tlc_mc('Prune_MC', 'Prune_MCt.cfg', workers=4, timeout=7200, stage=stage, coverage=True)

    # ---- 2. mechanism model (exhaustive, bounded): the repaired code is safe on linear histories (PruneSafe), and
    # ---- with reorganisations every violation belongs to the known class (Explained = PruneSafe \/ StaleShadow)
    cands = []

    def holds(name, base, kv, what):
        """invariants of cfg `name` must hold; a violation is a candidate that is replayed on the code"""
        ctx.write_cfg(stage, name, _cfg(rd(base), EmitOn='FALSE', **kv))
        r = ctx.tlc_mc('PruneMech_MC', name, workers=4, timeout=14400, stage=stage, expect_violation=True)
        if r['violation']:
            ctx.write_cfg(stage, 'e-' + name, _cfg(rd(base), EmitOn='TRUE', **kv))
            r = ctx.tlc_mc('PruneMech_MC', 'e-' + name, workers=4, timeout=14400, stage=stage, expect_violation=True, count=False)
            cands.append(counterexample(r, 'cex-%s-%s' % (what, name)))
            ctx.notes.append('mechanism model violates %s in %s (%s): candidate replayed on the code' % (r['violation'], name, what))
            return False
        return True
    lin = [('PruneMech_MC_lin.cfg', {})]
    expl = [('PruneMech_MCexpl_q.cfg', dict(MaxSteps=4))]
    if not q:
        lin += [('PruneMech_MC_ph1.cfg', dict(PruneH=1)), ('PruneMech_MC_ph3.cfg', dict(PruneH=3)),
                ('PruneMech_MC_b.cfg', dict(Heights='MCHeightsBands', MaxJump=2)),
                ('PruneMech_MC_k3.cfg', dict(NK=3, MaxJump=2))]
        expl += [('PruneMech_MCexpl_ph2.cfg', {}), ('PruneMech_MCexpl_ph3.cfg', dict(PruneH=3))]
    ctx.extra['mech_linear_safe_configs'] = [n for n, kv in lin if holds(n, 'PruneMech_MC.cfg', kv, 'linear')]
    ctx.extra['mech_reorg_violations_all_of_known_class_configs'] = [n for n, kv in expl if holds(n, 'PruneMech_MCexpl.cfg', kv, 'reorg')]

    # ---- 3. mechanism model with reorganisations / as found: TLC counterexamples are candidates
    for name in ('PruneMech_MCfork.cfg', 'PruneMech_MCorig.cfg'):
        ctx.write_cfg(stage, name, rd(name))
        r = ctx.tlc_mc('PruneMech_MC', name, workers=4, timeout=7200, stage=stage, expect_violation=True)
        if r['violation'] in ('PruneSafe', 'NoCrash'):
            cands.append(counterexample(r, 'cex-' + name))
        elif r['violation']:
            raise vlib.Broken('mechanism model violates %s (not the property) in %s' % (r['violation'], name))
    ctx.extra['mech_counterexamples'] = [dict(id=c['id'], steps=len(c['steps'])) for c in cands]
    if cands:
        s = preplay(ctx, b, cands, dict(view='ref', db='leveldb', ph=2), procs=1, label='tlc-counterexamples')
        ctx.extra['mech_counterexamples_reproduced_on_code'] = len(s['mismatches'])

    # ---- 4. generated histories (reference model), all prune intervals, both store APIs
    n = 210 if q else 3000
    gen = rd('Prune_Gen.cfg')
    plans = [(2, 'set', n), (1, 'memset', n // 3), (3, 'set', n // 3)]
    if not q:
        plans += [(2, 'memset', n // 2), (3, 'memset', n // 3)]
    for i, (ph, api, num) in enumerate(plans):
        name = 'Prune_Gen_ph%d.cfg' % ph
        ctx.write_cfg(stage, name, _cfg(gen, PruneH=ph))
        bs = ctx.tlc_sim('Prune_MC', name, num=num, depth=11, stage=stage, seed=ctx.seed * 10 + i, timeout=3600)
        preplay(ctx, b, bs, dict(view='ref', db='leveldb', ph=ph, api=api), procs=4, label='gen')
    if not q:
        # small consecutive heights: dense re-commits at used heights
        ctx.write_cfg(stage, 'Prune_Gen_small.cfg', _cfg(gen, Heights='MCHeightsSmall12', MaxSteps=12))
        bs = ctx.tlc_sim('Prune_MC', 'Prune_Gen_small.cfg', num=n, depth=13, stage=stage, seed=ctx.seed * 10 + 7, timeout=3600)
        preplay(ctx, b, bs, dict(view='ref', db='leveldb', ph=2, api='set', salt=1), procs=4, label='gen-small')

    # ---- 4b. directed exhaustive family: flip-flop reorganisations at one height (A, B, A again with identical
    # ---- content, i.e. the root record of A already exists when it is committed again), then growth + pruning
    ff = ctx.tlc_genall('Prune_FF', 'Prune_FF.cfg', stage=stage, timeout=7200, workers=2)

    def live_below(x):   # the base writes >= 2 keys; B writes a key that A does not write and that the base holds
        st = x['steps']
        return (sum(1 for v in st[0]['ws'] if v) >= 2 and
                any(st[2]['ws'][k] and not st[1]['ws'][k] and st[0]['ws'][k] for k in range(len(st[0]['ws']))))
    sel = [x for x in ff if live_below(x)]
    rest = [x for x in ff if not live_below(x)]
    ffb = (sel[ctx.seed % 8::8] + rest[ctx.seed % 32::32]) if q else ff
    ctx.extra['flipflop_family'] = dict(cfg='Prune_FF.cfg', complete_behaviours=len(ff), replayed=len(ffb))
    preplay(ctx, b, ffb, dict(view='ref', db='leveldb', ph=2, api='set'), procs=4, label='flip-flop')

    # memdb leg: linear histories whose first commit writes >= 2 keys (see memdbProbe in the driver; a re-commit
    # at a used height also panics on memdb: its cleanup batch ends with the delete of an absent index key)
    ctx.write_cfg(stage, 'Prune_Gen_mem.cfg', _cfg(gen, PruneH=2, Reorgs='FALSE'))
    mb = ctx.tlc_sim('Prune_MC', 'Prune_Gen_mem.cfg', num=n // 2, depth=11, stage=stage, seed=ctx.seed * 10 + 9, timeout=3600)
    mb = [x for x in mb if sum(1 for v in x['steps'][0].get('ws', []) if v) >= 2]
    if mb:
        s = preplay(ctx, b, mb, dict(view='ref', db='mem', ph=2, api='set'), procs=2, label='gen-memdb', tolerate='batch write err')
        ctx.extra['memdb_leg'] = dict(behaviours=s['behaviours'], process_died_in_MustWrite=len(s['died']))
        if s['died']:
            ctx.notes.append('memdb leg: %d replay process(es) died in dbm.MustWrite (memdb reports deleting an absent key): %s' % (len(s['died']), s['died'][0][-160:]))

    # binding self-test: one predicted read flipped must make the replayer disagree
    bad = json.loads(json.dumps(bs[0]))
    for st in bad['steps']:
        if st.get('chk'):
            st['chk'][0]['vals'][0] = (st['chk'][0]['vals'][0] + 1) % 3
            break
    s = preplay(ctx, b, [bad], dict(view='ref', db='leveldb', ph=2, api='set', salt=1 if not q else 0), procs=1, label='selftest', count=False, verdict=False)
    if not s['mismatches']:
        raise vlib.Broken('binding self-test failed: a corrupted prediction was not detected by the replay')
    ctx.extra['selftest_corrupted_behaviour_detected'] = True

    # ---- 5. mechanism model fidelity: its predicted read table (incl. missing records) and database
    # ---- shape (node / first-level / second-level index record counts) against the real store
    mg = rd('PruneMech_Gen.cfg')
    dis = 0
    tot = 0
    for i, (ph, hs) in enumerate([(2, 'MCHeightsBands'), (2, 'MCHeightsSmall12')] + ([] if q else [(1, 'MCHeightsBands'), (3, 'MCHeightsBands')])):
        name = 'PruneMech_Gen_%d.cfg' % i
        ctx.write_cfg(stage, name, _cfg(mg, PruneH=ph, Heights=hs, MaxWrites=1 if q else 2))
        bs = ctx.tlc_sim('PruneMech_MC', name, num=(30 if q else 150), depth=10, stage=stage, seed=ctx.seed * 10 + i, timeout=7200)
        preplay(ctx, b, bs, dict(view='ref', db='leveldb', ph=ph, api='set'), procs=4, label='mech-gen')
        s = preplay(ctx, b, mech_view(bs), dict(view='mech', db='leveldb', ph=ph, api='set'), procs=4, label='mech-fidelity', count=False, verdict=False)
        dis += len(s['mismatches'])
        tot += s['behaviours']
        for m in s['mismatches'][:3]:
            ctx.notes.append('mechanism model prediction differs from the store: %s step %s exp=%s obs=%s' %
                             (m.get('behaviour'), m.get('step'), json.dumps(m.get('expected'))[:200], json.dumps(m.get('observed'))[:200]))
    ctx.extra['mech_model_fidelity'] = dict(behaviours=tot, disagreements=dis,
                                            compared='read table incl. missing records, node/index/second-level-index record counts after every step')

    # ---- 6. recorded histories on 12-key trees (rotations, node cache) validated by the trace spec
    def flip(ev):
        for row in ev.get('t') or []:
            vals = row.get('vals')
            if vals:
                vals[0] = vals[0] + 1
                return True
        return False
    for ph in ([2] if q else [2, 3, 5]):
        name = 'Prune_Trace.cfg'   # PruneH = 2
        if ph != 2:
            name = 'Prune_Trace_ph%d.cfg' % ph
            ctx.write_cfg(stage, name, _cfg(rd('Prune_Trace.cfg'), PruneH=ph))
        opts = dict(n=6 if q else 40, keys=12, vals=3, depth=40 if q else 60, ph=ph, db='leveldb', api='set' if ph != 3 else 'memset')
        tname = 'trace-ph%d.ndjson' % ph
        tp, s = ctx.record(b, 'default', opts, name=tname, timeout=3000)
        ctx.extra.setdefault('recorded', []).append(dict(ph=ph, traces=s.get('behaviours'), counters=s.get('counters')))
        # a rejected trace (e.g. the known finding) must not hide the traces recorded after it: the
        # remainder of the file (from the next Reset) is validated again
        lines = [l for l in open(tp) if l.strip()]
        resets = [i for i, l in enumerate(lines) if json.loads(l).get('ev') == 'Reset']
        start, accepted_traces, first_ok, first_fail = 0, 0, None, None
        for _round in range(8 if q else 40):
            part = tp + '.part%d' % _round
            open(part, 'w').writelines(lines[start:])
            r = ctx.tlc_trace('Prune_Trace', name, part, stage=stage, timeout=3600)
            ctx.states += r['states']
            m = r['matched'] if r['matched'] is not None else 0
            done = [i for i in resets if start <= i and (r['accepted'] or i <= start + m)]
            if r['accepted']:
                accepted_traces += len(done)
                if first_ok is None and start == 0:
                    first_ok = part
                break
            accepted_traces += max(0, len(done) - 1)
            if first_fail is None:
                first_fail = start + m
            _trace_mismatch(ctx, part, r, opts, name)
            nxt = [i for i in resets if i > start + m]
            if not nxt:
                break
            start = nxt[0]
        frac = accepted_traces / max(1, len(resets))
        ctx.traces += accepted_traces
        ctx.evaluations += accepted_traces
        ctx.nontrivial += int(s.get('nontrivial', 0) * frac)
        if ph == 2:
            # binding self-test on a prefix that is accepted
            ok = tp + '.ok'
            rr = None
            if first_ok:
                rr = first_ok
            elif first_fail is not None:
                cut = max([i for i in resets if i <= first_fail] or [0])
                if cut > 0:
                    open(ok, 'w').writelines(lines[:cut])
                    rr = ok
            if rr:
                ctx.trace_selftest('Prune_Trace', name, rr, mutate=flip)
            else:
                ctx.notes.append('trace self-test skipped: first recorded trace already rejected')


def _trace_mismatch(ctx, tp, r, opts, cfg):
    lines = [l for l in open(tp) if l.strip()]
    m = r['matched'] if r['matched'] is not None else 0
    failing = json.loads(lines[m]) if m < len(lines) else None
    # classify like the replay driver does: a retained read that is missing vs anything else
    got = 'other'
    if failing and any(-1 in (row.get('vals') or []) for row in failing.get('t') or []):
        got = 'missing'
    # was there a rollback earlier in this trace (between the last Reset and the failing event)?
    start = max([i for i in range(m + 1) if json.loads(lines[i]).get('ev') == 'Reset'] or [0])
    evs = [json.loads(l) for l in lines[start:m + 1]]
    sc = _stale_class(evs)
    sig = 'trace|%s|retained-read=%s|%s' % (failing.get('ev') if failing else 'end', got, sc)
    if got == 'missing' and sc.endswith('=y'):
        sig = KNOWN_STALE
    keep = os.path.join(vlib.REPLAYS, '%s-%s-trace-%d-ph%s.json' % (ctx.prop, FAMILY, ctx.seed, opts.get('ph')))
    json.dump(dict(property=ctx.prop, family=FAMILY, seed=ctx.seed, tier=ctx.tier, opts=opts,
                   extra=dict(kind='trace', recorder='default', module='Prune_Trace', cfg=cfg, matched=m, failing_event=failing,
                              invariant=r['violation'], prefix=evs[-30:]), signature=sig), open(keep, 'w'), indent=1)
    ctx.mismatches.append(dict(signature=sig, replay=keep, expected='trace accepted by Prune_Trace',
                               observed='rejected at event %d: %s' % (m, json.dumps(failing)[:300]), field='trace'))


def _stale_class(evs):
    """same classification as the driver's staleShadow, from the recorded events of one trace"""
    writes, dead = {}, {}
    for e in evs:
        if e.get('ev') not in ('Commit', 'NoChange'):
            continue
        c = e['c']
        for y in [y for y in writes if y > c]:
            dead[y] = writes.pop(y)
        if e['ev'] == 'Commit' and e.get('ret') == 'ok':
            h = e['h']
            dead.pop(h, None)
            writes[h] = [i for i, v in enumerate(e['ws']) if v]
    for x, ks in dead.items():
        for z, ws in writes.items():
            if z < x and set(ks) & set(ws):
                return 'stale-branch-entry-above-live-version=y'
    return 'stale-branch-entry-above-live-version=n'


import vlib  # noqa: E402
