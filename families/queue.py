"""C36 — message bus (queue/queue.go, queue/client.go). Family Queue, mechanism model."""
import json
import os
import re

FAMILY = 'Queue'
DRIVER = 'queue'
HOOK_COMMITS = []
PROPS = {
    'C36': dict(
        text='TLC checks a mechanism model of the bus shaped like the code (topics with high/low buffers and closed flag, '
             'message pool whose objects keep their reply slot, subscriber pump, client/queue close split into their critical '
             'sections) for: a Wait returns the reply produced for its own request or an error, a request is received at most '
             'once, a Send started after a close fails, and (liveness under weak fairness of the call in progress) every Send/Wait '
             'in progress returns once the topic/client/queue was closed. The model is bound to the real queue package by trace '
             'validation: TLC-generated call schedules executed call by call, and seeded concurrent worlds (requesters, responders, '
             'closers with random delays, recycling, timeouts, closes at random points) log start/end of every call and TLC searches '
             'a linearisation; a 16-requester/4-responder/3-topic stress run and choreographed close-time scenarios check own-reply, '
             'at-most-once and "no call blocked after the close" on the spot (thorough: also under the race detector).',
        note='Bounds: exhaustive runs use 1-2 requesters, 1 responder, 1 closer, 2-3 pooled messages, buffers of size 1. The driver obeys '
             'FreeMessage\'s contract (free only after the reply was consumed or the send failed); a contract-breaking requester is '
             'only used to show that the own-reply invariant can fail. Not demanded: error codes, termination of Close()/Recv, Close of a '
             'never-subscribed client (a no-op in the code), concurrent Close of one client, several Sub per client. Blocked-call '
             'detection uses a grace period and is confirmed by a re-run.',
    ),
}

import vlib  # noqa: E402


def _write_replay(ctx, kind, sig, payload):
    os.makedirs(vlib.REPLAYS, exist_ok=True)
    h = abs(hash(sig)) % 10 ** 8
    p = os.path.join(vlib.REPLAYS, '%s-Queue-%d-%s-%08d.json' % (ctx.prop, ctx.seed, kind, h))
    json.dump(dict(property=ctx.prop, family=FAMILY, seed=ctx.seed, tier=ctx.tier, signature=sig,
                   extra=dict(kind='trace', source=kind, **payload)), open(p, 'w'), indent=1, default=str)
    return p


def _summary_mismatches(ctx, s, kind, rerun):
    """Direct-oracle disagreements reported by a recorder / stress run. A blocked call is only a verdict
    when it shows again on a re-run with the same seed (otherwise the machinery is unreliable: exit 2)."""
    mm = s.get('mismatches') or []
    if not mm:
        return
    blocked = [m for m in mm if m.get('field') == 'blocked']
    if blocked:
        s2 = rerun()
        again = {m.get('signature') for m in (s2.get('mismatches') or []) if m.get('field') == 'blocked'}
        if not ({m['signature'] for m in blocked} & again):
            raise vlib.Broken('a call blocked after the close did not reproduce on re-run (%s): %s'
                              % (kind, blocked[0].get('observed')))
        blocked = [m for m in blocked if m['signature'] in again]
    seen = set()
    for m in blocked + [m for m in mm if m.get('field') != 'blocked']:
        sig = m['signature']
        if sig in seen:
            continue
        seen.add(sig)
        rp = _write_replay(ctx, kind, sig, dict(world=m.get('behaviour'), observed=m.get('observed'), detail=m.get('error')))
        ctx.mismatches.append(dict(signature=sig, replay=rp, expected=m.get('expected'), observed=m.get('observed'), field=m.get('field')))


def _extra_cmd(ctx, binary, cmd, opts, tag, timeout=1800, env=None):
    optstr = ','.join('%s=%s' % kv for kv in opts.items())
    rc, out = vlib.sh([binary, cmd, '--seed', str(ctx.seed), '--tier', ctx.tier, '--prop', ctx.prop, '--opt', optstr],
                      cwd=ctx.scratch, timeout=timeout, env=env)
    if rc == 124:
        raise vlib.Broken('%s timeout' % cmd)
    m = re.search(r'^%s (.*)$' % re.escape(tag), out, re.M)
    if not m:
        if 'panic:' in out and 'chain33/queue' in out:
            return dict(crash=out[-6000:])
        raise vlib.Broken('%s died rc=%d:\n%s' % (cmd, rc, out[-3000:]))
    return json.loads(m.group(1))


def _stress(ctx, binary, opts, env=None, label='stress'):
    def run():
        s = _extra_cmd(ctx, binary, 'stress', opts, '@@SUMMARY', env=env)
        if 'crash' in s:
            s2 = _extra_cmd(ctx, binary, 'stress', opts, '@@SUMMARY', env=env)
            if 'crash' not in s2:
                raise vlib.Broken('stress driver crashed once, not on re-run:\n' + s['crash'][-2000:])
            return dict(behaviours=0, nontrivial=0, counters={}, mismatches=[dict(field='crash', signature='crash|process-died-in-queue',
                        expected='error returns', observed=s2['crash'][-1500:], behaviour='stress')])
        return s
    s = run()
    vlib.log('[%s] %s: %d worlds, %d non-trivial, counters %s, %d disagreements' %
             (label, os.path.basename(binary), s.get('behaviours', 0), s.get('nontrivial', 0), s.get('counters'), len(s.get('mismatches') or [])))
    _summary_mismatches(ctx, s, label, run)
    ctx.evaluations += s.get('behaviours', 0)
    ctx.nontrivial += s.get('nontrivial', 0)
    for x in (s.get('samples') or [])[:1]:
        if len(ctx.samples) < 6:
            ctx.samples.append(x)
    ctx.extra.setdefault('stress_counters', {})[label] = s.get('counters')
    return s


def _live(ctx, binary, opts):
    rs = _extra_cmd(ctx, binary, 'live', opts, '@@LIVE')
    if isinstance(rs, dict) and 'crash' in rs:
        raise vlib.Broken('live scenarios crashed:\n' + rs['crash'][-2000:])
    bad = [r for r in rs if r.get('blocked')]
    if bad:
        rs2 = _extra_cmd(ctx, binary, 'live', opts, '@@LIVE')
        again = {r['name'] for r in rs2 if r.get('blocked')}
        if not ({r['name'] for r in bad} & again):
            raise vlib.Broken('blocked call in scenario %s did not reproduce' % bad[0]['name'])
        bad = [r for r in bad if r['name'] in again]
    seen = set()
    for r in bad:
        if r['signature'] in seen:
            continue
        seen.add(r['signature'])
        rp = _write_replay(ctx, 'live-' + r['name'], r['signature'], dict(scenario=r['name'], observed=r['blocked'], detail=r.get('dump')))
        ctx.mismatches.append(dict(signature=r['signature'], replay=rp, field='blocked',
                                   expected='the call in progress returns once the close has returned (Queue.tla ClosedCallsReturn)',
                                   observed='scenario %s: %s' % (r['name'], r['blocked'])))
    nt = [r for r in rs if r.get('nontrivial')]
    ctx.evaluations += sum(max(1, r.get('cases', 1)) for r in rs)
    ctx.nontrivial += len(nt)
    ctx.extra['live_scenarios'] = [{k: v for k, v in r.items() if k != 'dump'} for r in rs]
    vlib.log('[live] %d scenarios, %d applicable, %d blocked' % (len(rs), len(nt), len(bad)))
    if len(nt) < len(rs) - 1:
        ctx.notes.append('live scenarios not applicable this run: %s' % [r['name'] for r in rs if not r.get('nontrivial')])
    return rs


def _expect_temporal_violation(ctx, cfg, timeout=3600):
    """Run TLC on an implementation variant whose liveness must fail (lib/vlib.parse_tlc does not recognise
    'Temporal property X was violated', so the run is made here)."""
    import time
    d = ctx.stage()
    args = ['-workers', '4', '-metadir', os.path.join(d, 'md-anti'), '-config', cfg, '-noGenerateSpecTE', 'Queue_MC']
    t0 = time.time()
    with vlib._Slot():
        rc, out = vlib.sh(vlib._tlc_cmd(args, heap='8g'), cwd=d, timeout=timeout)
    if rc == 124:
        raise vlib.Broken('TLC timeout on Queue_MC/%s' % cfg)
    m = re.search(r'Error: Temporal property (\S+) was violated', out)
    res = vlib.parse_tlc(out)
    vlib.log('[tlc-mc] Queue_MC/%s: %d generated, %d distinct, %.1fs, %s' % (cfg, res['generated'], res['distinct'], time.time() - t0,
             ('expected refutation ' + m.group(1)) if m else 'no violation'))
    ctx.checker_cmds.append('tlc -workers 4 -config %s Queue_MC  (expected liveness violation)' % cfg)
    if not m or m.group(1) != 'ClosedCallsReturn':
        raise vlib.Broken('anti-vacuity: %s (implementation variant without the repair) must violate ClosedCallsReturn:\n%s' % (cfg, out[-1500:]))
    ctx.mc_runs.append(dict(module='Queue_MC', cfg=cfg, generated=res['generated'], distinct=res['distinct'], depth=res['depth'],
                            wall_s=round(time.time() - t0, 1), violation=m.group(1)))
    return m.group(1)


def _echo_mutation(ev):
    if ev.get('ev') == 'WaitE' and ev.get('ret') == 'reply':
        ev['echo'] = ev['echo'] + 1
        return True
    return False


def _validated(ctx, binary, recorder, opts, selftest=False):
    def rerun():
        return ctx.record(binary, recorder, opts)[1]
    try:
        r, s = ctx.validate_recording(binary, 'Queue_Trace', 'Queue_Trace.cfg', recorder=recorder, opts=opts, dfs=True, timeout=3600)
    except vlib.Broken as e:
        # the recorder process died: a Go panic inside the queue package is a candidate "crash" (confirmed by a re-run)
        if 'recorder failed' in str(e) and 'panic' in str(e) and 'chain33/queue' in str(e):
            try:
                rerun()
            except vlib.Broken as e2:
                if 'panic' in str(e2) and 'chain33/queue' in str(e2):
                    sig = 'crash|process-died-in-queue'
                    rp = _write_replay(ctx, recorder, sig, dict(observed=str(e2)[-3000:]))
                    ctx.mismatches.append(dict(signature=sig, replay=rp, field='crash', expected='error returns, no crash',
                                               observed=str(e2)[-1500:]))
                    return None, {}
            raise vlib.Broken('recorder crashed once, not on re-run: %s' % str(e)[-1500:])
        raise
    _summary_mismatches(ctx, s, recorder, rerun)
    for k, v in (s.get('counters') or {}).items():
        c = ctx.extra.setdefault('recorded_counters', {})
        c[k] = c.get(k, 0) + v
    return r, s


def _selftests(ctx, binary):
    """Anti-vacuity of the binding: a recorded trace with one reply attributed to another request, and one with
    a Reply event removed, must be rejected by Queue_Trace."""
    tp, s = ctx.record(binary, 'rand', dict(n=4, budget=10, maxreq=3, salt=77))
    ctx.trace_selftest('Queue_Trace', 'Queue_Trace.cfg', tp, dfs=True, mutate=_echo_mutation)
    lines = [json.loads(l) for l in open(tp) if l.strip()]
    # drop the Reply that precedes the last successful WaitE of the same request
    idx = None
    for i in range(len(lines) - 1, -1, -1):
        if lines[i].get('ev') == 'WaitE' and lines[i].get('ret') == 'reply':
            for j in range(i - 1, -1, -1):
                if lines[j].get('ev') == 'Reply' and lines[j].get('req') == lines[i]['echo']:
                    idx = j
                    break
                if lines[j].get('ev') == 'Reset':
                    break
            if idx is not None:
                break
    if idx is None:
        ctx.notes.append('selftest(drop): no Reply/WaitE pair in the recorded trace')
        return
    bad = tp + '.drop'
    with open(bad, 'w') as f:
        for k, l in enumerate(lines):
            if k != idx:
                f.write(json.dumps(l) + '\n')
    r = ctx.tlc_trace('Queue_Trace', 'Queue_Trace.cfg', bad, dfs=True)
    if r['accepted']:
        raise vlib.Broken('binding self-test failed: a trace with a Reply event removed was accepted')
    ctx.extra['selftest_dropped_event_rejected'] = True


def _schedules(bs):
    """call starts of a simulated behaviour = a schedule for the real bus"""
    keep = {'New', 'SendS', 'WaitS', 'Free', 'Drop', 'RecvS', 'Reply', 'Ignore', 'CloseCS', 'CloseQS'}
    out = []
    for b in bs:
        st = [{k: v for k, v in s.items() if k not in ('m', 'req', 'ret')} for s in b['steps'] if s.get('op') in keep]
        if len(st) >= 4:
            out.append(dict(id=b['id'], steps=st))
    return out


def _race_reports(ctx, d):
    reps = []
    for f in sorted(os.listdir(d)):
        if not f.startswith('race'):
            continue
        txt = open(os.path.join(d, f), errors='replace').read()
        for blk in txt.split('=================='):
            if 'DATA RACE' in blk and 'chain33/queue' in blk.replace(vlib.REPO.rstrip('/') + '/queue', 'chain33/queue'):
                reps.append(blk.strip()[:3000])
    return reps


def run(ctx):
    q = ctx.tier == 'quick'
    ctx.rule = ('cases = (a) call schedules: the call starts of TLC-simulated behaviours of Queue.tla executed call by call on the real bus, '
                '(b) seeded concurrent worlds (2-4 requesters incl. a serving module, 1-3 responders, 2 closers, 1-2 topics, random delays/modes/'
                'recycling/closes), both validated event by event against Queue_Trace; (c) stress worlds (16 requesters, 4 responders, 3 topics) and '
                '(d) choreographed close-time scenarios with on-the-spot oracles. A world is non-trivial when at least two synchronous requests were '
                'outstanding at the same time or a close (client or queue) happened while requests were outstanding; a scenario when its blocked '
                'precondition was established. Worlds are distinct by seed-derived shape and schedule (schedules are de-duplicated by their call sequence).')
    ctx.assumptions += ['FreeMessage contract obeyed by the users of the bus', 'one Sub per client, before concurrent use',
                        'a client is closed at most once; queue.Close may race with everything',
                        'a blocked call is reported after a grace period (default 20 s) and only if it reproduces',
                        'TLC bounds: <=2 requesters, 1 responder, 1 closer, <=3 pooled messages, buffers of size 1']
    # 1. the model itself
    ctx.tlc_mc('Queue_MC', 'Queue_MCq.cfg' if q else 'Queue_MCa.cfg', workers=4, timeout=7200, coverage=not q)
    live = ctx.tlc_mc('Queue_MC', 'Queue_Liveq.cfg' if q else 'Queue_Live.cfg', workers=4, timeout=7200)
    if not q:
        ctx.tlc_mc('Queue_MC', 'Queue_MCc.cfg', workers=4, timeout=7200)
        ctx.tlc_mc('Queue_MC', 'Queue_MC2c.cfg', workers=4, timeout=7200)
    # anti-vacuity of the model's properties (expected violations; candidates, never verdicts)
    anti = {}
    r = ctx.tlc_mc('Queue_MC', 'Queue_Bad.cfg', workers=4, timeout=3600, expect_violation=True, count=False)
    anti['contract_breaking_free'] = r['violation']
    if r['violation'] != 'ReplyToOwnRequest':
        raise vlib.Broken('anti-vacuity: a contract-breaking FreeMessage must violate ReplyToOwnRequest in the model, got %s' % r['violation'])
    if not q:
        for cfg in ('Queue_LivePreLow.cfg', 'Queue_LivePreSweep.cfg'):
            anti[cfg] = _expect_temporal_violation(ctx, cfg)
    ctx.extra['model_anti_vacuity'] = anti
    # 2. the real code
    b = vlib.build(DRIVER)
    grace = 20
    _live(ctx, b, dict(grace=grace, hammer=300 if q else 3000))
    # binding A: TLC-generated call schedules
    for i in range(1 if q else 4):
        bs = ctx.tlc_sim('Queue_MC', 'Queue_Gen.cfg', num=100 if q else 400, depth=70, seed=ctx.seed * 10 + i)
        sch = _schedules(bs)
        if not sch:
            raise vlib.Broken('no schedules generated')
        p = ctx.write_behaviours(sch, 'sched-%d.ndjson' % i)
        _validated(ctx, b, 'sched', {'in': p, 'grace': grace, 'settle_us': 15000})
    # binding B: seeded concurrent worlds
    for i in range(2 if q else 10):
        _validated(ctx, b, 'rand', dict(n=15 if q else 40, budget=10, maxreq=3, salt=i, grace=grace))
    _selftests(ctx, b)
    _stress(ctx, b, dict(rounds=10 if q else 150, budget=60, grace=grace))
    if not q:
        br = vlib.build(DRIVER, race=True)
        rd = os.path.join(ctx.scratch, 'racelogs')
        os.makedirs(rd, exist_ok=True)
        env = dict(GORACE='exitcode=0 log_path=%s/race halt_on_error=0' % rd)
        _stress(ctx, br, dict(rounds=40, budget=50, grace=60, salt=5), env=env, label='stress-race')
        reps = _race_reports(ctx, rd)
        ctx.extra['race_reports'] = reps[:10]
        ctx.extra['race_reports_total'] = len(reps)
        if reps:
            ctx.notes.append('%d data-race reports inside /repo/queue recorded (not a verdict)' % len(reps))
    ctx.extra['liveness_states'] = live['distinct']
