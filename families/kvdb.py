"""C06-C08 - common/db: KV backends vs ordered-map model, paged listing, layered LocalDB. Family KVDB."""
import copy

FAMILY = 'KVDB'
DRIVER = 'kvdb'
PROPS = {
    'C06': dict(text='wip', note='wip'),
    'C07': dict(text='wip', note='wip'),
    'C08': dict(text='wip', note='wip'),
}
T = 3600  # generous: the machine is shared


def run_c06(ctx):
    q = ctx.tier == 'quick'
    ctx.tlc_mc('KVDB_MC', 'KVDB_MCq.cfg' if q else 'KVDB_MC.cfg', workers=4, timeout=3 * T)
    b = vlib.build(DRIVER)
    bs = ctx.tlc_sim('KVDB_Gen', 'KVDB_Gen.cfg', num=300 if q else 3000, depth=30, timeout=3 * T)
    for db in ('mem', 'leveldb', 'badger'):
        ctx.replay(b, bs, opts=dict(spec='kvdb', db=db), par=4, count=(db == 'mem'), timeout=T)


def run_c07(ctx):
    q = ctx.tier == 'quick'
    ctx.tlc_mc('Listing_MC', 'Listing_MCq.cfg', workers=4, timeout=3 * T)
    b = vlib.build(DRIVER)
    n = 150 if q else 1500
    g1 = ctx.tlc_sim('Listing_Gen', 'Listing_Gen1.cfg', num=n, depth=40, timeout=3 * T)
    g2 = ctx.tlc_sim('Listing_Gen', 'Listing_Gen2.cfg', num=n, depth=40, timeout=3 * T)
    g3 = ctx.tlc_sim('Listing_Gen', 'Listing_Gen3.cfg', num=n, depth=40, timeout=3 * T)
    for db in ('mem', 'leveldb', 'badger'):
        ctx.replay(b, g1, opts=dict(spec='listing', bind='helper', db=db), par=4, count=(db == 'mem'), timeout=T)
    ctx.replay(b, g1, opts=dict(spec='listing', bind='kvdblist', db='mem'), par=4, count=False, timeout=T)
    for g in (g2, g3):
        ctx.replay(b, g, opts=dict(spec='listing', bind='merged', db='mem'), par=4, timeout=T)
        ctx.replay(b, g, opts=dict(spec='listing', bind='merged', db='mix'), par=4, count=False, timeout=T)
        ctx.replay(b, g, opts=dict(spec='listing', bind='localdb', db='mem'), par=4, count=False, timeout=T)


def run_c08(ctx):
    q = ctx.tier == 'quick'
    ctx.tlc_mc('LocalDB_MC', 'LocalDB_MCq.cfg' if q else 'LocalDB_MC.cfg', workers=4, timeout=3 * T)
    b = vlib.build(DRIVER)
    bs = ctx.tlc_sim('LocalDB_Gen', 'LocalDB_Gen.cfg', num=200 if q else 2000, depth=30, timeout=3 * T)
    for db in ('mem', 'leveldb'):
        ctx.replay(b, bs, opts=dict(spec='localdb', db=db, proj=1), par=4, count=(db == 'mem'), timeout=T)
    ctx.replay(b, bs, opts=dict(spec='localdb', db='mem', proj=0), par=4, count=False, timeout=T)


def run(ctx):
    return dict(C06=run_c06, C07=run_c07, C08=run_c08)[ctx.prop](ctx)


import vlib  # noqa: E402
