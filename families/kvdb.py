"""C06-C08 - chain33 common/db: key-value backends against an ordered-map model (C06), paged listing through
ListHelper / merged iterators / LocalDB (C07), layered LocalDB transaction semantics (C08). Family KVDB.

Specs (spec/KVDB): ByteKeys (byte-string order, prefix upper bound), KVDB (C06), MergedView + Listing (C07),
LocalDB (C08), each with _MC / _Gen / _All / _Trace companions. Driver: harness/drv/kvdb."""
import copy

FAMILY = 'KVDB'
DRIVER = 'kvdb'
HOOK_COMMITS = []          # no hook needed (DESIGN 5)
FIX_COMMITS = ['d96c6ff']  # fix: badger iterator upper bound was inclusive (found by C06)

_TECH = ('TLA+ reference model with keys as byte sequences over {0,1,255} (prefix relation and prefix upper bound inside '
         'the model) checked by TLC; TLC-generated behaviours replayed into the real common/db code under an '
         'order-preserving hostile concretisation; seeded recordings of the real code validated by a TLA+ trace specification')

PROPS = {
    'C06': dict(
        text='TLC checks the ordered-map model KVDB exhaustively on small constants (walk visits exactly the in-range keys in '
             'order, prefix mode = [start, UB(start)), seek landing, batch = last-op-wins, read-your-write; byte-order lemmas '
             'as ASSUMEs). TLC-simulated histories (Set/Delete/Batch/Get, iterators in prefix / [start,end) / open-ended mode, '
             'forward and reverse, Rewind/Seek/Next) are replayed into GoMemDB, GoLevelDB and GoBadgerDB, comparing Get of every '
             'key after each write and (Valid, Key, Value) after each iterator call; seeded recordings over 84 keys are '
             'validated by KVDB_Trace for each backend.',
        note='Not compared: error value of Delete/batch Write for an absent key, Iterator.Error(), boolean results of '
             'Rewind/Seek/Next, iterator state before the first Rewind/Seek, Next on an invalid iterator, writes while an '
             'iterator is open, Seek targets outside the iterator range (reply open), the empty key. Badger runs with a '
             'concretisation without 0xff/0xfe bytes. TLC bounds: 3-4 stored keys, 13 bounds, values {0,1}, batches <= 2 '
             '(exhaustive); 12 keys, batches <= 3, depth 30 (simulation).',
        technique=_TECH),
    'C07': dict(
        text='TLC checks on every content of 2-3 layers x 3-4 keys (live / deleted marker / absent per layer), every prefix, '
             'direction and page size that client-side paging (continue after the last returned key until an empty page) '
             'returns exactly the live entries of the merged view once, in order, and that PrefixCount is their number. '
             'Generated and exhaustively exported paginations are replayed into ListHelper.List/PrefixCount over memdb, LevelDB, '
             'Badger, NewKVDB, NewMergedIteratorDB over 2-3 databases and LocalDB.List/PrefixCount (tx/cache/base), every request '
             'issued in all three result encodings; recorded paginations over 84 keys are validated by Listing_Trace.',
        note='Not compared: ListSeek mode, count <= 0, continuation keys that the previous page did not return, listing while the '
             'content changes. Values are decoded back to (key, layer) by the harness to continue value-only listings. '
             'The exhaustive export covers 2 layers x 3 keys (29160 paginations); larger shapes are sampled.',
        technique=_TECH),
    'C08': dict(
        text='TLC checks the layered model (base / committed overlay / open transaction) exhaustively on 3 keys: list and count '
             'agree with point reads in every state, Rollback discards exactly the transaction writes, Commit keeps them, Begin '
             'is neutral, a write is visible and isolated. Generated histories (Begin/Set/Get/List/PrefixCount/Commit/Rollback '
             'over a pre-populated base, empty values as delete markers) and all 6-call histories over 2 keys are replayed into '
             'db.NewLocalDB on memdb / LevelDB, comparing every Get, both complete listings and the count after every call; '
             'the same histories run through the blockchain module\'s EventLocal* handlers on a real node; recordings over 84 '
             'keys are validated by LocalDB_Trace.',
        note='Not generated: Begin inside an open transaction, Commit/Rollback without one, read-only mode, concurrent use. '
             'The blockchain handlers offer no transaction-scoped PrefixCount, so that call is only checked on db.NewLocalDB.',
        technique=_TECH),
}
T = 3600  # generous timeouts: the machine is shared (AGENT_BRIEF load notice)


def _cov(ctx, res, allow=()):
    """-coverage 1 prints interim reports too: only the last figure of every action counts."""
    import re
    last = {}
    for m in re.finditer(r'^<(\w+) line [^>]*>: (\d+):(\d+)\s*$', res.get('out') or '', re.M):
        last[m.group(1)] = (int(m.group(2)), int(m.group(3)))
    if not last:
        raise vlib.Broken('no coverage figures in the TLC output')
    zero = sorted(a for a, (d, g) in last.items() if g == 0 and a not in allow)
    if zero:
        raise vlib.Broken('vacuous model-checking run, actions never taken: %s' % zero)
    ctx.extra['mc_action_coverage'] = {a: '%d:%d' % v for a, v in sorted(last.items())}


# ---------------------------------------------------------------------------------------------------- C06
def run_c06(ctx):
    q = ctx.tier == 'quick'
    ctx.rule = ('behaviours = TLC simulation of KVDB (arguments from an LCG in the state, seeded by -seed): depth-30 histories of '
                'writes, batches, reads and iterator sessions over 12 keys / 13 bounds, replayed on each backend under a seeded '
                'byte concretisation; non-trivial = an iterator walk visiting >= 2 keys under a non-default bound (non-empty '
                'start or explicit end), or a batch containing a delete; distinct by abstract action sequence. Recorded traces: '
                'same criterion.')
    ctx.assumptions += ['goleveldb / badger libraries trusted below the chain33 wrappers', 'single iterator, no writes while it is open',
                        'TLC bounds: see level_note']
    r = ctx.tlc_mc('KVDB_MC', 'KVDB_MCq.cfg' if q else 'KVDB_MC.cfg', workers=4, timeout=3 * T, coverage=not q)
    if not q:
        _cov(ctx, r)
    b = vlib.build(DRIVER)
    n = 300 if q else 2500
    bs = ctx.tlc_sim('KVDB_Gen', 'KVDB_Gen.cfg', num=n, depth=30, timeout=3 * T)
    for db in ('mem', 'leveldb', 'badger'):
        ctx.replay(b, bs, opts=dict(spec='kvdb', db=db), par=4, count=(db == 'mem'), timeout=T)
    if not q:
        for sd in (1, 2):
            bs2 = ctx.tlc_sim('KVDB_Gen', 'KVDB_Gen.cfg', num=n, depth=30, seed=ctx.seed * 100 + sd, timeout=3 * T)
            for db in ('mem', 'leveldb', 'badger'):
                ctx.replay(b, bs2, opts=dict(spec='kvdb', db=db, salt=sd), par=4, count=(db == 'mem'), timeout=T)
    for db in ('mem', 'leveldb', 'badger'):
        ctx.validate_recording(b, 'KVDB_Trace', 'KVDB_Trace.cfg', recorder='kvdb',
                               opts=dict(db=db, n=6 if q else 40, depth=80), selftest=(db == 'leveldb' and not q), timeout=3 * T)
    _replay_selftest(ctx, b, bs, dict(spec='kvdb', db='mem'))


# ---------------------------------------------------------------------------------------------------- C07
def run_c07(ctx):
    q = ctx.tier == 'quick'
    ctx.rule = ('behaviours = (a) TLC simulation of Listing: random writes into 1-3 layers (one in four a deleted marker) then '
                'complete paginations (first request with empty key, then key = last returned key until an empty page) and '
                'PrefixCount, (b) thorough: exhaustive export of every content x prefix x direction x page size of the 2-layer / '
                '3-key configuration; every List request is issued in the three result encodings; non-trivial = a pagination of '
                '>= 2 non-empty pages over a content with a deleted marker or a key equal to the prefix / to its upper bound; '
                'distinct by abstract action sequence.')
    ctx.assumptions += ['content does not change during a pagination', 'TLC bounds: see level_note']
    r = ctx.tlc_mc('Listing_MC', 'Listing_MCq.cfg', workers=4, timeout=3 * T, coverage=not q)
    if not q:
        _cov(ctx, r, allow=('Put',))  # the exhaustive configs enumerate contents in Init (MaxPuts = 0)
        ctx.tlc_mc('Listing_MC', 'Listing_MC.cfg', workers=4, timeout=6 * T)
        ctx.tlc_mc('Listing_MC', 'Listing_MC3.cfg', workers=4, timeout=6 * T)
    b = vlib.build(DRIVER)
    n = 150 if q else 1200
    g = {L: ctx.tlc_sim('Listing_Gen', 'Listing_Gen%d.cfg' % L, num=n, depth=45, timeout=3 * T) for L in (1, 2, 3)}
    for db in ('mem', 'leveldb', 'badger'):
        ctx.replay(b, g[1], opts=dict(spec='listing', bind='helper', db=db), par=4, count=(db == 'mem'), timeout=T)
    ctx.replay(b, g[1], opts=dict(spec='listing', bind='kvdblist', db='leveldb'), par=4, count=False, timeout=T)
    for L in (2, 3):
        ctx.replay(b, g[L], opts=dict(spec='listing', bind='merged', db='mem'), par=4, timeout=T)
        ctx.replay(b, g[L], opts=dict(spec='listing', bind='merged', db='mix'), par=4, count=False, timeout=T)
        ctx.replay(b, g[L], opts=dict(spec='listing', bind='localdb', db='mem'), par=4, count=False, timeout=T)
        ctx.replay(b, g[L], opts=dict(spec='listing', bind='localdb', db='leveldb', salt=1), par=4, count=False, timeout=T)
    if not q:
        allb = ctx.tlc_genall('Listing_All', 'Listing_All.cfg', timeout=6 * T)
        ctx.replay(b, allb, opts=dict(spec='listing', bind='merged', db='mem'), par=4, timeout=2 * T)
        ctx.replay(b, allb, opts=dict(spec='listing', bind='localdb', db='mem', salt=2), par=4, count=False, timeout=2 * T)
        ctx.replay(b, allb[::7], opts=dict(spec='listing', bind='merged', db='mix', salt=3), par=4, count=False, timeout=2 * T)
        ctx.extra['exhaustive_small_config'] = dict(cfg='Listing_All.cfg', behaviours=len(allb))
    for L, bind, db in ((1, 'helper', 'leveldb'), (3, 'merged', 'mix'), (3, 'localdb', 'mem')) + (() if q else ((1, 'helper', 'badger'),)):
        ctx.validate_recording(b, 'Listing_Trace', 'Listing_Trace%d.cfg' % L, recorder='listing',
                               opts=dict(db=db, bind=bind, layers=L, n=5 if q else 30, puts=30, lists=6),
                               selftest=(bind == 'merged' and not q), timeout=3 * T)
    _replay_selftest(ctx, b, g[3], dict(spec='listing', bind='merged', db='mem'))


# ---------------------------------------------------------------------------------------------------- C08
def _for_chain(bs):
    """The blockchain handlers have no transaction-scoped PrefixCount: drop those calls, leave the count of the
    projection open."""
    out = []
    for b in bs:
        c = copy.deepcopy(b)
        c['steps'] = [s for s in c['steps'] if s.get('op') != 'PrefixCount']
        for s in c['steps']:
            if isinstance(s.get('chk'), dict):
                s['chk']['count'] = '*'
        out.append(c)
    return out


def run_c08(ctx):
    q = ctx.tier == 'quick'
    ctx.rule = ('behaviours = (a) TLC simulation of LocalDB: depth-30 histories of Begin/Set/Get/List/PrefixCount/Commit/Rollback '
                'over a pre-populated base (writes biased to keys a lower layer holds, a third of them empty values), (b) '
                'exhaustive export of every history of 6 state-changing calls over 2 keys x 4 base contents; the projection '
                '(Get of every key, complete listing in both directions, count) is compared after every state-changing call; '
                'non-trivial = a key written inside an open transaction that the overlay or the base also holds, followed by '
                'Commit or Rollback; distinct by abstract action sequence.')
    ctx.assumptions += ['the base database does not change underneath the LocalDB', 'sequential use', 'TLC bounds: see level_note']
    r = ctx.tlc_mc('LocalDB_MC', 'LocalDB_MCq.cfg' if q else 'LocalDB_MC.cfg', workers=4, timeout=3 * T, coverage=not q)
    if not q:
        _cov(ctx, r)
    b = vlib.build(DRIVER)
    n = 200 if q else 2000
    bs = ctx.tlc_sim('LocalDB_Gen', 'LocalDB_Gen.cfg', num=n, depth=30, timeout=3 * T)
    for db in ('mem', 'leveldb'):
        ctx.replay(b, bs, opts=dict(spec='localdb', db=db, proj=1), par=4, count=(db == 'mem'), timeout=T)
    ctx.replay(b, bs, opts=dict(spec='localdb', db='mem', proj=0, salt=1), par=4, count=False, timeout=T)
    if not q:
        ctx.replay(b, bs, opts=dict(spec='localdb', db='badger', proj=1, salt=2), par=4, count=False, timeout=T)
    allb = ctx.tlc_genall('LocalDB_All', 'LocalDB_Allq.cfg' if q else 'LocalDB_All.cfg', timeout=6 * T)
    ctx.replay(b, allb, opts=dict(spec='localdb', db='mem', proj=1), par=4, timeout=2 * T)
    ctx.extra['exhaustive_small_config'] = dict(cfg='LocalDB_Allq.cfg' if q else 'LocalDB_All.cfg', behaviours=len(allb))
    # second binding: the blockchain module's EventLocal* handlers on a real node (one node per replay process)
    cb = _for_chain(bs[:60] if q else bs[:600])
    ctx.replay(b, cb, opts=dict(spec='localdb', bind='chain', proj=1), par=1, count=False, timeout=2 * T)
    for db in ('mem', 'leveldb'):
        ctx.validate_recording(b, 'LocalDB_Trace', 'LocalDB_Trace.cfg', recorder='localdb',
                               opts=dict(db=db, n=5 if q else 30, depth=80), selftest=(db == 'leveldb' and not q), timeout=3 * T)
    _replay_selftest(ctx, b, bs, dict(spec='localdb', db='mem', proj=1))


# ---------------------------------------------------------------------------------------------------- shared
def _replay_selftest(ctx, binary, bs, opts):
    """Anti-vacuity of binding A (thorough tier): flip one predicted reply and require the replayer to disagree."""
    if ctx.tier == 'quick':
        return
    for b in bs:
        idx = [i for i, s in enumerate(b['steps']) if isinstance(s.get('ret'), (list, dict, int)) and s.get('ret') != []]
        if not idx:
            continue
        c = copy.deepcopy(b)
        c['id'] = 'selftest-' + c['id']
        s = c['steps'][idx[-1]]
        s['ret'] = vlib.corrupt(s['ret'])
        keep = list(ctx.mismatches)
        ev, tr, nt = ctx.evaluations, ctx.traces, ctx.nontrivial
        res = ctx.replay(binary, [c], opts=dict(opts, selftest=1), par=1, count=False, timeout=T)
        found = len(ctx.mismatches) > len(keep)
        for m in ctx.mismatches[len(keep):]:
            try:
                import os
                os.remove(m.get('replay') or m.get('Replay'))
            except Exception:
                pass
        ctx.mismatches[:] = keep
        ctx.evaluations, ctx.traces, ctx.nontrivial = ev, tr, nt
        if not found:
            raise vlib.Broken('binding self-test failed: a behaviour with a corrupted predicted reply was accepted by the replayer')
        ctx.extra['selftest_corrupted_behaviour_rejected'] = True
        return
    ctx.notes.append('replay selftest: no corruptible step')


def run(ctx):
    return dict(C06=run_c06, C07=run_c07, C08=run_c08)[ctx.prop](ctx)


import vlib  # noqa: E402
