"""C06-C08 - common/db: KV backends vs ordered-map model, paged listing, layered LocalDB. Family KVDB."""
FAMILY = 'KVDB'
DRIVER = 'kvdb'
PROPS = {
    'C06': dict(text='wip', note='wip'),
}


def run_c06(ctx):
    q = ctx.tier == 'quick'
    ctx.tlc_mc('KVDB_MC', 'KVDB_MCq.cfg' if q else 'KVDB_MC.cfg', workers=4, timeout=3600)
    b = vlib.build(DRIVER)
    bs = ctx.tlc_sim('KVDB_Gen', 'KVDB_Gen.cfg', num=300 if q else 3000, depth=30, timeout=1800)
    for db in ('mem', 'leveldb', 'badger'):
        ctx.replay(b, bs, opts=dict(spec='kvdb', db=db), par=4, count=(db == 'mem'), timeout=3000)


def run(ctx):
    if ctx.prop == 'C06':
        return run_c06(ctx)
    raise vlib.Broken('no check for ' + ctx.prop)


import vlib  # noqa: E402
